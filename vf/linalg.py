"""Engine L -- linear-algebra obligations in QF_LRA over concrete exact (integer / rational)
matrices produced by the real code.  The universally quantified object is the coefficient
vector: full column rank <=> (exists c != 0: X c = 0) is unsat; span inclusion <=> (exists C:
X C = R) is sat (the model is a witness and is re-checked in exact rational arithmetic)."""
import os
import time
from fractions import Fraction

import numpy as np
import z3


class LinStats:
    def __init__(self):
        self.queries = 0
        self.solver_s = 0.0
        self.unknown = 0
        self.cross = {"checked": 0, "agree": 0, "disagree": 0, "unknown": 0}


STATS = LinStats()


def exact(M):
    """numpy array (int / float holding exact small rationals / object) -> list of lists of Fraction.
    Floats must be exactly representable integers or dyadic rationals (checked)."""
    M = np.asarray(M)
    if M.ndim == 1:
        M = M[:, None]
    out = []
    for row in M.tolist():
        r = []
        for v in row:
            if isinstance(v, bool):
                v = int(v)
            if isinstance(v, int):
                r.append(Fraction(v))
            elif isinstance(v, float):
                if v != v or v in (float("inf"), float("-inf")):
                    raise ValueError("non-finite entry")
                r.append(Fraction(v))  # exact binary value
            elif isinstance(v, Fraction):
                r.append(v)
            else:
                r.append(Fraction(int(v)))
        out.append(r)
    return out


_VALS = {}


def _val(fr):
    v = _VALS.get(fr)
    if v is None:
        v = z3.RealVal(str(fr)) if fr.denominator != 1 else z3.RealVal(fr.numerator)
        if len(_VALS) < 100000:
            _VALS[fr] = v
    return v


def _solver(timeout_ms):
    s = z3.SolverFor("QF_LRA")
    s.set("timeout", timeout_ms)
    return s


CROSS_RATE = int(os.environ.get("VERIF_CROSS_RATE", "0")) * 40  # thorough tier: every 200th LRA query


def _check(s):
    t0 = time.time()
    r = str(s.check())
    STATS.queries += 1
    STATS.solver_s += time.time() - t0
    if r == "unknown":
        STATS.unknown += 1
    elif CROSS_RATE and STATS.queries % CROSS_RATE == 0:
        _cross(s, r)
    return r


def _cross(s, answer):
    """re-decide one query with the independent z3 4.8.12 binary"""
    import subprocess
    import tempfile

    with tempfile.NamedTemporaryFile("w", suffix=".smt2", delete=False) as f:
        f.write("(set-logic QF_LRA)\n" + s.to_smt2())
        path = f.name
    try:
        out = subprocess.run(["/usr/bin/z3", "-T:30", path], capture_output=True, text=True, timeout=40).stdout.strip().splitlines()
        ans = out[0] if out else ""
        STATS.cross["checked"] += 1
        if ans == answer:
            STATS.cross["agree"] += 1
        elif ans in ("sat", "unsat"):
            STATS.cross["disagree"] += 1
        else:
            STATS.cross["unknown"] += 1
    except Exception:  # noqa
        STATS.cross["unknown"] += 1
    finally:
        os.unlink(path)


def full_column_rank(X, timeout_ms=60000):
    """returns (True, None) | (False, dependency vector as list of Fraction) | (None, None) on unknown"""
    X = exact(X)
    if not X or not X[0]:
        return True, None
    p = len(X[0])
    c = [z3.Real(f"c{j}") for j in range(p)]
    s = _solver(timeout_ms)
    for row in X:
        terms = [_val(a) * c[j] for j, a in enumerate(row) if a != 0]
        if terms:
            s.add(z3.Sum(terms) == 0)
    s.add(z3.Or([cj != 0 for cj in c]))
    r = _check(s)
    if r == "unsat":
        return True, None
    if r == "unknown":
        return None, None
    m = s.model()
    dep = []
    for cj in c:
        v = m.eval(cj, model_completion=True)
        dep.append(Fraction(v.numerator_as_long(), v.denominator_as_long()))
    # exact re-check of the witness
    for row in X:
        assert sum(a * d for a, d in zip(row, dep)) == 0
    return False, dep


def span_contains(X, R, timeout_ms=60000):
    """is every column of R a linear combination of the columns of X?  returns (True|False|None, index of a
    column of R outside span(X) or None)"""
    X, R = exact(X), exact(R)
    n = len(X)
    if len(R) != n:
        return False, 0
    p = len(X[0]) if X and X[0] else 0
    m = len(R[0]) if R and R[0] else 0
    if m == 0:
        return True, None
    # one query: exists C (p x m) with X C = R; the m column systems are independent blocks
    C = [[z3.Real(f"c{j}_{k}") for k in range(m)] for j in range(p)]
    s = _solver(timeout_ms)
    nz = [[j for j in range(p) if X[i][j] != 0] for i in range(n)]
    for i in range(n):
        for k in range(m):
            terms = [_val(X[i][j]) * C[j][k] for j in nz[i]]
            s.add((z3.Sum(terms) if terms else z3.RealVal(0)) == _val(R[i][k]))
    r = _check(s)
    if r == "unknown":
        return None, 0
    if r == "sat":
        mdl = s.model()
        for k in range(m):
            coef = []
            for j in range(p):
                v = mdl.eval(C[j][k], model_completion=True)
                coef.append(Fraction(v.numerator_as_long(), v.denominator_as_long()))
            for i in range(n):
                assert sum(X[i][j] * coef[j] for j in range(p)) == R[i][k]
        return True, None
    # unsat: locate one offending column (for the report)
    for k in range(m):
        c = [z3.Real(f"c{j}") for j in range(p)]
        s = _solver(timeout_ms)
        for i in range(n):
            terms = [_val(X[i][j]) * c[j] for j in nz[i]]
            s.add((z3.Sum(terms) if terms else z3.RealVal(0)) == _val(R[i][k]))
        r = _check(s)
        if r == "unsat":
            return False, k
        if r == "unknown":
            return None, k
    return None, 0


def same_span(X, R, timeout_ms=60000):
    a, ka = span_contains(X, R, timeout_ms)
    if a is None:
        return None, "unknown"
    if not a:
        return False, f"model-space direction {ka} is not in span(X)"
    b, kb = span_contains(R, X, timeout_ms)
    if b is None:
        return None, "unknown"
    if not b:
        return False, f"column {kb} of X is outside the model space"
    return True, None
