"""C13 -- contrast codings are valid, honour their options, and are interchangeable.

(1) Treatment / Sum matrices for every level count n <= N and every reference / omit index:
    shape, [1 | reduced] full column rank and full matrix of rank n by z3 (QF_LRA, Engine L);
    unit-vector / zero-sum / labels structure by exact integer comparison.
(2) C / T / S options through the real pipeline on a frame with z3-real numeric cells: every
    permutation of the levels as levels=, every ref / omit; column meaning compared as z3 terms.
(3) Interchangeability: swapping a factor's coding never changes span(X) (Engine L, two runs).
"""
import itertools
import re

import numpy as np
import pandas as pd

from vf import core, gen, linalg, pipe, symx

ID = "C13"


# ------------------------------------------------------------------------------- (1) matrices
def check_coding(n):
    """returns list of (ok, what, detail)"""
    from formulae.categorical import Sum, Treatment

    out = []
    levels = [f"L{i}" for i in range(n)]

    def add(ok, what, detail=""):
        out.append((ok, what, detail))

    for idx in [None] + list(range(n)):
        ref = None if idx is None else levels[idx]
        eff = 0 if idx is None else idx
        # Treatment
        t = Treatment(ref)
        red = t.code_without_intercept(list(levels))
        full = t.code_with_intercept(list(levels))
        M, F = np.asarray(red.matrix), np.asarray(full.matrix)
        add(M.shape == (n, n - 1), "treatment: reduced matrix is n x (n-1)", f"n={n} ref={ref} shape={M.shape}")
        add(F.shape == (n, n), "treatment: full matrix is n x n", f"n={n}")
        if M.shape == (n, n - 1):
            r, _ = linalg.full_column_rank(np.column_stack([np.ones(n, dtype=int), M])) if n > 0 else (True, None)
            add(r is True, "treatment: [1 | reduced] has full column rank", f"n={n} ref={ref}")
            others = [l for i, l in enumerate(levels) if i != eff]
            want = np.array([[1 if levels[i] == l else 0 for l in others] for i in range(n)], dtype=int).reshape(n, n - 1)
            add(np.array_equal(M, want), "treatment: columns are level indicators, reference row zero", f"n={n} ref={ref}")
            add(list(red.labels) == others, "treatment: labels name the non-reference levels in order", f"n={n} ref={ref} labels={red.labels}")
        r, _ = linalg.full_column_rank(F)
        add(r is True and F.shape == (n, n), "treatment: full matrix spans all level indicators", f"n={n}")
        add(np.array_equal(F, np.eye(n, dtype=int)) and list(full.labels) == levels, "treatment: full matrix = indicators labelled by level", f"n={n}")
        # Sum
        s = Sum(ref)
        effs = (n - 1) if idx is None else idx
        red = s.code_without_intercept(list(levels))
        full = s.code_with_intercept(list(levels))
        M, F = np.asarray(red.matrix), np.asarray(full.matrix)
        add(M.shape == (n, n - 1), "sum: reduced matrix is n x (n-1)", f"n={n} omit={ref} shape={M.shape}")
        if M.shape == (n, n - 1):
            r, _ = linalg.full_column_rank(np.column_stack([np.ones(n, dtype=int), M]))
            add(r is True, "sum: [1 | reduced] has full column rank", f"n={n} omit={ref}")
            add(bool((M.sum(axis=0) == 0).all()), "sum: every column adds up to zero over the levels", f"n={n} omit={ref}")
            add(bool((M[effs, :] == -1).all()) if n > 1 else True, "sum: the omitted level is coded -1 in every column", f"n={n} omit={ref}")
            others = [l for i, l in enumerate(levels) if i != effs]
            want = np.array([[1 if levels[i] == l else (-1 if i == effs else 0) for l in others] for i in range(n)], dtype=int).reshape(n, n - 1)
            add(np.array_equal(M, want), "sum: column of level l is +1 on l, -1 on the omitted level, 0 elsewhere", f"n={n} omit={ref}")
            add(list(red.labels) == others, "sum: labels name the non-omitted levels in order", f"n={n} omit={ref} labels={red.labels}")
        r, _ = linalg.full_column_rank(F)
        add(r is True and F.shape == (n, n), "sum: full matrix spans all level indicators", f"n={n} omit={ref}")
    return out


def _work_coding(n):
    core.setup_paths()
    res = check_coding(n)
    return {"n": n, "results": res, "queries": linalg.STATS.queries, "solver_s": linalg.STATS.solver_s}


# ------------------------------------------------------------------------------- (2) options
LEVELS4 = [-1, 0, 2, 5]  # includes 0 and a negative level: falsy / signed reference values


def option_cases(tier):
    out = []
    nl = 3 if tier == "quick" else 4
    base = LEVELS4[:nl]
    for perm in itertools.permutations(base):
        out.append(("C_levels", list(perm), None))
        for r in (base if tier != "quick" else base[:2]):
            out.append(("T_ref_levels", list(perm), r))
            out.append(("S_omit_levels", list(perm), r))
        # an outer C() without options around a coded factor inherits coding, reference AND level order
        out.append(("C_of_C_levels", list(perm), None))
        out.append(("C_of_T_ref_levels", list(perm), base[1]))
        out.append(("C_of_S_omit_levels", list(perm), base[0]))
        # the level order of an ordered categorical column is its category order, whatever the call
        for r in base[:2]:
            out.append(("T_ref_ordered", list(perm), r))
            out.append(("S_omit_ordered", list(perm), r))
            out.append(("C_Treatment_ref_ordered", list(perm), r))
        out.append(("C_plain_ordered", list(perm), None))
        out.append(("C_of_T_ref_ordered", list(perm), base[1]))
    for r in base:
        out.append(("T_ref", None, r))
        out.append(("S_omit", None, r))
        out.append(("C_Treatment_ref", None, r))
        out.append(("C_Sum_omit", None, r))
    out.append(("C_plain", None, None))
    out.append(("S_plain", None, None))
    # float levels that need seven and more significant digits
    FL = [1000001.0, 0.1234567, 2.5, 1000002.0][: nl + 1]
    out.append(("C_plain_float", FL, None))
    out.append(("S_plain_float", FL, None))
    for r in FL[:2]:
        out.append(("T_ref_float", FL, r))
        out.append(("C_Sum_omit_float", FL, r))
    for r in base:
        out.append(("shared_Sum", None, r))
        out.append(("shared_Treatment", None, r))
    out.append(("shared_Sum", None, None))  # Sum() / Treatment() with their defaults, shared by two factors
    out.append(("shared_Treatment", None, None))
    # levels= must name exactly the levels of the data; tuples are as good as lists
    for how in ("missing_one", "extra_one", "tuple", "tuple_T", "tuple_S"):
        out.append(("levels_decl", how, None))
    out.append(("handed_out", None, None))
    if tier != "quick":
        for perm in list(itertools.permutations([-1, 0, 2, 5, 7])):
            out.append(("C_levels5", list(perm), None))
    return out


def signature(case, v):
    info = v.get("info") or {}
    sig = {"kind": case[0], "levels": case[1], "ref": case[2], "what": v["label"].split(" [")[0]}
    if isinstance(info, dict) and "exc" in info:
        sig["exc"], sig["site"] = info["exc"], info.get("site")
    return sig


def harness(env, case):
    from formulae import design_matrices

    kind, lv, r = case
    if kind.startswith("shared_"):
        return shared_encoding(env, kind, r)
    if kind == "levels_decl":
        return levels_declaration(env, lv)
    if kind == "handed_out":
        return handed_out(env)
    data_levels = sorted(lv) if lv else LEVELS4[: harness.nl]
    # training frame: every level twice, scrambled; numeric cells symbolic
    L = len(data_levels)
    step = next(s for s in range(2, 12) if all(s % q or L % q for q in range(2, L + 1)))
    kvals = [data_levels[(i * step + 1) % L] for i in range(2 * L)]
    n = len(kvals)
    x = env.column("x", n)
    order = list(lv) if lv else list(data_levels)
    if kind.endswith("_float"):
        order = sorted(lv)  # no levels= argument: sorted order
    # ordered columns declare one more category (9999) that no row has: it is not a level of these data
    kcol = pd.Categorical(kvals, categories=order[:1] + [9999] + order[1:], ordered=True) if kind.endswith("_ordered") else np.array(kvals, dtype=np.float64 if kind.endswith("_float") else np.int64)
    df = env.frame({"y": env.column("y", n), "x": x, "k": kcol})
    call = {"C_plain_float": "C(k)", "S_plain_float": "S(k)", "T_ref_float": f"T(k, {r})", "C_Sum_omit_float": f"C(k, Sum({r}))",
            "C_of_C_levels": "C(C(k, levels=lv))", "C_of_T_ref_levels": f"C(T(k, {r}, levels=lv))", "C_of_S_omit_levels": f"C(S(k, {r}, levels=lv))",
            "T_ref_ordered": f"T(k, {r})", "S_omit_ordered": f"S(k, {r})", "C_Treatment_ref_ordered": f"C(k, Treatment({r}))", "C_plain_ordered": "C(k)", "C_of_T_ref_ordered": f"C(T(k, {r}))",
            "C_levels": "C(k, levels=lv)", "C_levels5": "C(k, levels=lv)", "T_ref_levels": f"T(k, {r}, levels=lv)", "S_omit_levels": f"S(k, {r}, levels=lv)", "T_ref": f"T(k, {r})", "S_omit": f"S(k, {r})",
            "C_Treatment_ref": f"C(k, Treatment({r}))", "C_Sum_omit": f"C(k, Sum({r}))", "C_plain": "C(k)", "S_plain": "S(k)"}[kind]
    is_sum = kind.startswith("S_") or kind in ("C_Sum_omit", "C_of_S_omit_levels", "C_Sum_omit_float")
    if is_sum:
        dropped = r if r is not None else order[-1]
    else:
        dropped = r if r is not None else order[0]
    kept = [l for l in order if l != dropped]
    for formula, full in ((f"y ~ {call}", False), (f"y ~ 0 + {call}", True), (f"y ~ x:{call}", True)):
        try:
            with env.running():
                dm = design_matrices(formula, df, extra_namespace={"lv": list(order)})
        except symx.PathEnd:
            raise
        except Exception as e:
            env.fail("coding call cannot be evaluated", {"exc": type(e).__name__, "site": core.repo_site(e), "msg": str(e)[:160], "formula": formula})
            return
        X = np.asarray(dm.common[call] if "x:" not in formula else dm.common[f"x:{call}"])
        labels = [l for l in (str(c) for c in dm.common.as_dataframe().columns) if call in l]
        mult = x if "x:" in formula else np.ones(n, dtype=object)
        if full and not is_sum:
            cols = order
            want = np.array([[mult[i] * (1 if kvals[i] == l else 0) for l in cols] for i in range(n)], dtype=object)
            want_labels = [str(l) for l in cols]
        elif full and is_sum:
            cols = kept
            want = np.array([[mult[i]] + [mult[i] * (1 if kvals[i] == l else (-1 if kvals[i] == dropped else 0)) for l in cols] for i in range(n)], dtype=object)
            want_labels = ["mean"] + [str(l) for l in cols]
        elif is_sum:
            cols = kept
            want = np.array([[mult[i] * (1 if kvals[i] == l else (-1 if kvals[i] == dropped else 0)) for l in cols] for i in range(n)], dtype=object)
            want_labels = [str(l) for l in cols]
        else:
            cols = kept
            want = np.array([[mult[i] * (1 if kvals[i] == l else 0) for l in cols] for i in range(n)], dtype=object)
            want_labels = [str(l) for l in cols]
        tag = "full" if full else "reduced"
        got_levels = [re.search(r"\[([^\[\]]*)\]$", l).group(1) for l in labels]
        env.prove(got_levels == want_labels, f"{tag}: levels= fixes the order, the first level (or ref / omit) is the one left out")
        if X.shape == want.shape:
            env.prove_equal(X, want, f"{tag}: columns are the coding of the levels in the declared order")
        else:
            env.prove(False, f"{tag}: number of columns", {"got": X.shape, "want": want.shape})


def levels_declaration(env, how):
    """levels= naming fewer / more levels than the data holds is refused; a tuple is accepted like a list"""
    from formulae import design_matrices

    data_levels = LEVELS4[:3]
    kvals = [data_levels[(i * 2 + 1) % 3] for i in range(6)]
    x = env.column("x", 6)
    df = env.frame({"y": env.column("y", 6), "x": x, "k": np.array(kvals, dtype=np.int64)})
    order = [data_levels[1], data_levels[2], data_levels[0]]
    decl = {"missing_one": order[:2], "extra_one": order + [77], "tuple": tuple(order), "tuple_T": tuple(order), "tuple_S": tuple(order)}[how]
    call = {"tuple_T": f"T(k, {order[1]}, levels=lv)", "tuple_S": f"S(k, {order[0]}, levels=lv)"}.get(how, "C(k, levels=lv)")
    try:
        with env.running():
            dm = design_matrices(f"y ~ 0 + x:{call}", df, extra_namespace={"lv": decl})
        raised = None
    except symx.PathEnd:
        raise
    except Exception as e:
        dm, raised = None, e
    if how in ("missing_one", "extra_one"):
        env.prove(raised is not None, "levels= that does not name exactly the levels of the data is refused", {"declared": list(decl)})
        return
    if raised is not None:
        env.fail("levels= given as a tuple is refused", {"exc": type(raised).__name__, "site": core.repo_site(raised)})
        return
    labels = [re.search(r"\[([^\[\]]*)\]$", str(c)).group(1) for c in dm.common.as_dataframe().columns]
    if how == "tuple_S":
        env.prove(labels == ["mean"] + [str(l) for l in order[1:]], "tuple levels= fixes the order (Sum, omitted level left out)")
    else:
        env.prove(labels == [str(l) for l in order], "tuple levels= fixes the order")


def handed_out(env):
    """objects the library hands out are the caller's to modify: a coding matrix obtained from an encoding
    object and then overwritten must not show up in a later design"""
    from formulae import design_matrices
    from formulae.categorical import Sum, Treatment

    lv = LEVELS4[:3]
    for enc in (Treatment(), Sum()):
        for fn in ("code_with_intercept", "code_without_intercept"):
            cm = getattr(enc, fn)(list(lv))
            M = np.asarray(cm.matrix)
            M[...] = 7
            if hasattr(cm, "labels") and isinstance(cm.labels, list):
                cm.labels[:] = ["overwritten"] * len(cm.labels)
    kvals = [lv[(i * 2 + 1) % 3] for i in range(6)]
    x = env.column("x", 6)
    df = env.frame({"y": env.column("y", 6), "x": x, "k": np.array(kvals, dtype=np.int64)})
    for call, cols, sumc in (("C(k)", lv, False), ("S(k)", lv[:-1], True)):
        for formula, full in ((f"y ~ 0 + x:{call}", True), (f"y ~ {call}", False)):
            with env.running():
                dm = design_matrices(formula, df)
            name = f"x:{call}" if full else call
            X = np.asarray(dm.common[name])
            mult = x if full else np.ones(6, dtype=object)
            if not sumc:
                use = list(lv) if full else list(lv[1:])
                want = np.array([[mult[i] * (1 if kvals[i] == l else 0) for l in use] for i in range(6)], dtype=object)
            else:
                body = [[mult[i] * (1 if kvals[i] == l else (-1 if kvals[i] == lv[-1] else 0)) for l in lv[:-1]] for i in range(6)]
                want = np.array([([mult[i]] if full else []) + body[i] for i in range(6)], dtype=object)
            if X.shape == want.shape:
                env.prove_equal(X, want, "a coding matrix handed out earlier and overwritten by the caller does not leak into a later design")
            else:
                env.prove(False, "a coding matrix handed out earlier and overwritten by the caller does not leak into a later design (shape)", {"got": X.shape, "want": want.shape})
            labels = [str(c) for c in dm.common.as_dataframe().columns]
            env.prove(not any("overwritten" in l for l in labels), "... nor do its labels")


def shared_encoding(env, kind, r):
    """one user-created encoding object used for two factors with different level sets"""
    from formulae import design_matrices
    from formulae.categorical import Sum, Treatment

    lv1 = LEVELS4[: harness.nl]
    lv2 = ([r] if r is not None else []) + [l + 10 for l in lv1 if l != r]  # r is first here, elsewhere in lv1
    n = 2 * len(lv1)
    k1 = [lv1[(i * 2 + 1) % len(lv1)] if len(lv1) % 2 else lv1[(i * 3 + 1) % len(lv1)] for i in range(n)]
    k2 = [lv2[(i + 1) % len(lv2)] for i in range(n)]
    x = env.column("x", n)
    df = env.frame({"y": env.column("y", n), "x": x, "k": np.array(k1, dtype=np.int64), "m": np.array(k2, dtype=np.int64)})
    if r is None:
        mk = Sum if kind == "shared_Sum" else Treatment
        enc = mk()
        fresh = mk
    enc = (Sum(r) if kind == "shared_Sum" else Treatment(r)) if r is not None else enc
    try:
        with env.running():
            dm = design_matrices("y ~ 0 + x:C(k, enc) + x:C(m, enc)", df, extra_namespace={"enc": enc})
            if r is not None:
                fresh = (lambda: Sum(r)) if kind == "shared_Sum" else (lambda: Treatment(r))
            dm2 = design_matrices("y ~ 0 + x:C(k, enc1) + x:C(m, enc2)", df, extra_namespace={"enc1": fresh(), "enc2": fresh()})
    except symx.PathEnd:
        raise
    except Exception as e:
        env.fail("shared encoding object cannot be used for two factors", {"exc": type(e).__name__, "site": core.repo_site(e), "msg": str(e)[:120]})
        return
    env.prove_equal(np.asarray(dm.common["x:C(m, enc)"]), np.asarray(dm2.common["x:C(m, enc2)"]), "an encoding object gives the same coding whether or not it was used for another factor before")
    l1 = [l.split("[")[-1] for l in dm.common.terms["x:C(m, enc)"].labels]
    l2 = [l.split("[")[-1] for l in dm2.common.terms["x:C(m, enc2)"].labels]
    env.prove(l1 == l2, "... and the same labels")


harness.nl = 3


# ------------------------------------------------------------------------------- (3) interchange
CODINGS = {"f": ["f", "C(f)", "T(f, 'b')", "S(f)", "C(f, Sum)", "C(f, Treatment('b'))", "S(f, 'a')"],
           "g": ["g", "C(g)", "T(g, 't')", "S(g)", "C(g, Sum)", "C(g, Treatment('u'))", "S(g, 's')"]}
TEMPLATES = ["y ~ {f}", "y ~ 0 + {f}", "y ~ {f} + {g}", "y ~ {f} + {g} + {f}:{g}", "y ~ x + {f} + x:{f}", "y ~ 0 + {g} + {f}:{g}", "y ~ {f}:{g}", "y ~ x:{g}", "y ~ {f} + x:{f}:{g}", "y ~ {g}:{f} + {f}",
             "y ~ {f}:{g}:h", "y ~ x + x:{f}:{g}:h", "y ~ h + {f}:h:{g}"]


def interchange_cases(tier):
    out = []
    for t in TEMPLATES:
        fs = CODINGS["f"] if "{f}" in t else ["f"]
        gs = CODINGS["g"] if "{g}" in t else ["g"]
        for cf in fs:
            for cg in gs:
                if cf == "f" and cg == "g":
                    continue
                if tier == "quick" and (fs.index(cf) + gs.index(cg)) % 2 == 1:
                    continue
                out.append((t, cf, cg))
    return out


def _work_inter(items):
    core.setup_paths()
    core.silence_logging()
    from formulae import design_matrices

    from vf.props import c03

    res = []
    for t, cf, cg in items:
        df, _ = c03.frame(["f", "g"] + (["h"] if re.search(r"\bh\b", t) else []), ["x"], 5)
        f0, f1 = t.format(f="f", g="g"), t.format(f=cf, g=cg)
        try:
            import contextlib, io

            with contextlib.redirect_stdout(io.StringIO()):
                X0 = np.asarray(design_matrices(f0, df).common.design_matrix)
                X1 = np.asarray(design_matrices(f1, df).common.design_matrix)
        except Exception as e:
            res.append({"ok": False, "what": "coded formula cannot be evaluated", "formula": f1, "base": f0, "exc": type(e).__name__, "site": core.repo_site(e), "detail": str(e)[:120]})
            continue
        same, why = linalg.same_span(X0, X1)
        full, _ = linalg.full_column_rank(X1)
        if same is None or full is None:
            res.append({"ok": None, "formula": f1})
        elif same and full:
            res.append({"ok": True, "formula": f1, "base": f0})
        else:
            rk = (c03.frac_rank(X0), c03.frac_rank(X1), c03.frac_rank(np.column_stack([X0, X1])))
            res.append({"ok": False, "what": "swapping the coding changes the column space" if not same else "coded design is rank deficient", "formula": f1, "base": f0,
                        "detail": f"{why}; exact ranks base/coded/joint = {rk}, columns {X0.shape[1]}/{X1.shape[1]}", "reproduced": rk[0] != rk[2] or rk[1] != rk[2] or rk[1] < X1.shape[1]})
    return {"results": res, "queries": linalg.STATS.queries, "solver_s": linalg.STATS.solver_s}


def run(tier, seed):
    rep = core.Report(ID, tier, seed)
    rep.functions = ["formulae.categorical.Treatment.code_with_intercept/code_without_intercept, Sum._omit_index/_sum_contrast/code_*, ContrastMatrix, CategoricalBox", "formulae.transforms.C/T/S",
                     "formulae.terms.call.Call.eval_categorical_box", "formulae.terms.terms.Model.eval (coding decisions) for the interchangeability runs"]
    N = 8 if tier == "quick" else 20
    rep.bounds = {"level counts": f"1..{N}, every reference / omit index and the default", "levels= permutations": f"all permutations of {3 if tier == 'quick' else 4} levels" + ("" if tier == "quick" else " and all 120 permutations of 5"),
                  "interchangeability": f"{len(TEMPLATES)} formula templates over f (2 levels), g (3 levels), x; codings {CODINGS['f']} / {CODINGS['g']}"}
    rep.outside = ["level counts above the bound; user-defined Encoding subclasses", "floats"]
    rep.stubs = pipe.STUBS
    rep.assumptions = ["general position by integer pseudo-random data for the span comparisons"]
    rep.rule = "cases: (level count) / (coding call, levels permutation, ref) / (template, coding of f, coding of g); non-trivial = all"
    nq, ss = 0, 0.0
    # (1)
    for r in core.pmap(_work_coding, list(range(1, N + 1))):
        nq += r["queries"]
        ss += r["solver_s"]
        for ok, what, detail in r["results"]:
            rep.cases += 1
            rep.stats["obligations"] = rep.stats.get("obligations", 0) + 1
            rep.reach[what] = rep.reach.get(what, 0) + 1
            if ok:
                rep.stats["discharged"] = rep.stats.get("discharged", 0) + 1
            else:
                rep.violations.append({"label": what, "signature": {"part": "matrices", "what": what, "case": detail}, "replay": {"n": r["n"], "detail": detail}, "reproduced": True, "detail": detail})
                rep.replayed += 1
    # (2)
    harness.nl = 3 if tier == "quick" else 4
    pipe.run_cases(rep, "vf.props.c13", "harness", option_cases(tier))
    # (3)
    items = interchange_cases(tier)
    chunks = [items[i::32] for i in range(32)]
    for r in core.pmap(_work_inter, [c for c in chunks if c]):
        nq += r["queries"]
        ss += r["solver_s"]
        for x in r["results"]:
            rep.cases += 1
            rep.stats["obligations"] = rep.stats.get("obligations", 0) + 1
            if x["ok"] is None:
                rep.inconclusive.append(f"solver unknown on {x['formula']}")
            elif x["ok"]:
                rep.stats["discharged"] = rep.stats.get("discharged", 0) + 1
                rep.add_sample({"coded": x["formula"], "base": x["base"], "verdict": "same column space, full rank"}, limit=8)
            else:
                sig = {"part": "interchange", "what": x["what"], "formula": x["formula"]}
                if "exc" in x:
                    sig["exc"], sig["site"] = x["exc"], x["site"]
                rep.violations.append({"label": x["what"], "signature": sig, "replay": x, "reproduced": x.get("reproduced", True), "detail": x.get("detail", "")})
                rep.replayed += 1
    rep.stats["solver_queries"] = rep.stats.get("solver_queries", 0) + nq
    rep.stats["solver_s"] = rep.stats.get("solver_s", 0.0) + ss
    rep.stats["paths"] = rep.cases
    rep.nontrivial = rep.cases
    return core.finish(rep)
