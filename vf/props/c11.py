"""C11 -- name resolution order and evaluation environment.

Decision variables (explored exhaustively): which of the five scopes {data frame, built-ins,
caller locals, caller globals, extra_namespace} define the probe name, the role (argument /
callee), the name flavour (plain, dotted, back-quoted) and the env depth 0..3 through generated
nested callers with decoy bindings at the other depths.  Every defining scope binds the name to a
DIFFERENT z3 value, so 'first match wins' is the obligation
    result == value_of(first defining scope)      (decided by z3)
and 'defined nowhere' must raise.
"""
import types

import numpy as np
import pandas as pd
import z3

from vf import core, pipe, symx

ID = "C11"
SCOPES = ["data", "builtins", "locals", "globals", "extra"]
N = 3


def envobj_harness(env):
    """an Environment object of the caller passed as env= to several calls: every call sees its own
    extra_namespace in front of the captured scopes and leaves the object as it was"""
    from formulae import design_matrices
    from formulae.environment import Environment

    x, y = env.column("x", N), env.column("y", N)
    df = env.frame({"y": y, "x": x})
    v1, v2, v3 = env.real("val_first"), env.real("val_second"), env.real("val_captured")
    g = {"__builtins__": __builtins__, "Environment": Environment}
    exec("def capture(captured_name):\n    return Environment.capture()", g)
    E = g["capture"](v3)
    snap = lambda: [(id(d), sorted(map(str, d)), [id(v) for _, v in sorted(d.items(), key=lambda kv: str(kv[0]))]) for d in getattr(E, "_namespaces", [])]  # noqa: E731
    before = snap()

    def rec(a, v):
        return a + v

    def run(formula, extra):
        with env.running():
            return np.asarray(design_matrices(formula, df, env=E, extra_namespace=extra).common.design_matrix)[:, 1]

    try:
        c1 = run("y ~ rec(x, probe)", {"rec": rec, "probe": v1})
        c2 = run("y ~ rec(x, probe)", {"rec": rec, "probe": v2})
        c3 = run("y ~ rec(x, captured_name)", {"rec": rec})
    except symx.PathEnd:
        raise
    except Exception as e:
        env.fail("a caller-made Environment passed as env= cannot be used", {"exc": type(e).__name__, "site": core.repo_site(e)})
        return
    env.prove_equal(c1, x + v1, "env object: the call's own extra_namespace is used (first call)")
    env.prove_equal(c2, x + v2, "env object: the call's own extra_namespace is used (second call, same object)")
    env.prove_equal(c3, x + v3, "env object: captured locals are visible")
    try:
        run("y ~ rec(x, probe)", {"rec": rec})
        env.fail("env object: a name given only to an earlier call still resolves")
    except symx.PathEnd:
        raise
    except Exception:  # noqa
        env.ok("env object: a name given only to an earlier call does not resolve later")
    env.prove(snap() == before, "env object: unchanged by the calls")


def cases(tier):
    out = [("envobj", "plain", 0)]
    depths = [0, 1, 2, 3] if tier == "quick" else [0, 1, 2, 3, 4, 5, 6]
    for role in ("argument", "kwarg", "callee"):
        for flavour in ("plain", "pyname", "dotted", "dotted3", "dotted3same", "dotted4", "backquoted", "unicode", "kwlike"):
            if role in ("argument", "kwarg") and flavour.startswith("dotted"):
                continue
            if role == "callee" and flavour in ("backquoted", "unicode", "kwlike"):
                continue
            for depth in depths:
                out.append((role, flavour, depth))
    return out


def signature(case, v):
    info = v.get("info") or {}
    return {"role": case[0], "flavour": case[1], "depth": case[2], "defined_in": (info or {}).get("defined"), "what": v["label"].split(" [")[0]}


class Tag:
    """a distinct symbolic value per (scope, depth)"""

    def __init__(self, env):
        self.env = env

    def value(self, scope, depth=None):
        return self.env.real(f"val_{scope}" + ("" if depth is None else f"_{depth}"))


def harness(env, case):
    import formulae
    from formulae import design_matrices
    from formulae.transforms import TRANSFORMS

    role, flavour, depth = case
    if role == "envobj":
        return envobj_harness(env)
    c = env.c
    sym = env.mode == "sym"
    # which scopes define the name at the selected depth
    if sym:
        bits = {s: bool(c.pick(2)) for s in SCOPES}
        none_winner = bool(c.pick(2)) if role != "callee" else False
    else:
        bits = dict(env.model.get("_bits") or {s: False for s in SCOPES})
        none_winner = bool(bits.pop("none_winner", False))
    # restrictions of the flavours
    if flavour.startswith("dotted"):
        bits["builtins"] = False  # no built-in has a dotted name
    if flavour in ("backquoted", "unicode"):
        bits["builtins"] = False
        bits["locals"] = False  # a back-quoted name is not a Python identifier; a name that is not in normal form
        # NFKC cannot be a local either (Python normalises identifiers in source text), but it can be a
        # column, a key of a globals dict or of extra_namespace
    if role == "callee":
        pass
    tag = Tag(env)
    x = env.column("x", N)
    y = env.column("y", N)
    base = "I" if bits["builtins"] else "probe"  # 'I' is a built-in (identity): usable as argument and as callee
    if flavour == "pyname":
        bits["builtins"] = False
        base = "round" if role == "callee" else "len"  # names of PYTHON builtins are not a scope of their own
    if flavour == "backquoted":
        base = "odd name!"
    if flavour == "kwlike":
        bits["builtins"] = False
        base = "none" if role == "argument" else "TRUE"  # ordinary names that only LOOK like Python's None / True
    if flavour == "unicode":
        base = "\u00b5g"  # MICRO SIGN: its NFKC form is GREEK SMALL LETTER MU
    head = base if not flavour.startswith("dotted") else "m"

    NONE = object()

    def val(scope, d=None):
        return tag.value(scope, d)

    def as_binding(v):
        """what a scope binds the name to: a number (argument role) or a function adding it"""
        if role != "callee":
            obj = v
        else:
            obj = (lambda vv: (lambda a: a + vv))(v)
        if flavour == "dotted":
            return types.SimpleNamespace(fn=obj)
        if flavour == "dotted3":
            return types.SimpleNamespace(sub=types.SimpleNamespace(fn=obj))
        if flavour == "dotted4":
            # m.fn exists too (a decoy with another value): m.a.b.fn must not resolve to m.b.fn / m.fn
            decoy = (lambda a: a + val("decoy_attr")) if role == "callee" else val("decoy_attr")
            return types.SimpleNamespace(fn=decoy, b=types.SimpleNamespace(fn=decoy), a=types.SimpleNamespace(fn=decoy, b=types.SimpleNamespace(fn=obj)))
        if flavour == "dotted3same":
            return types.SimpleNamespace(fn=types.SimpleNamespace(fn=obj))  # an inner component spelt like the function
        return obj

    cols = {"y": y, "x": x}
    datacol = env.column("datacol", N)
    if bits["data"] or role == "callee":
        # callee role: a column of that name is always present as a decoy that must be skipped
        cols[head] = datacol
    df = env.frame(cols)
    if head not in cols:
        # a decoy: the frame's index carries the probe name; only columns count as data
        df.index = pd.Index([101.0 + 3.0 * i for i in range(len(df))], name=head)
    # (filled below, once the winner is known)
    extra = {}

    def rec(a, v):
        """recording helper for the argument role: x + value (built-in objects and None get their own tag)"""
        if v is None:
            return a + val("none")
        if callable(v) and not isinstance(v, (symx.Sym,)):
            return a + val("builtins")
        return a + v

    extra["rec"] = rec
    order0 = ["data", "builtins", "locals", "globals", "extra"] if role != "callee" else ["builtins", "locals", "globals", "extra"]
    winner0 = next((sc for sc in order0 if bits[sc]), None)
    isnone = {sc: (none_winner and sc == winner0 and sc in ("locals", "globals", "extra")) for sc in SCOPES}

    def bound(scope):
        return None if isnone[scope] else as_binding(val(scope))

    if bits["extra"]:
        extra[head] = bound("extra")
    name_in_formula = {"plain": base, "pyname": base, "backquoted": f"`{base}`", "dotted": "m.fn", "dotted3": "m.sub.fn", "dotted3same": "m.fn.fn", "dotted4": "m.a.b.fn", "kwlike": base, "unicode": base}[flavour]
    formula = {"argument": f"y ~ rec(x, {name_in_formula})", "kwarg": f"y ~ rec(x, v={name_in_formula})", "callee": f"y ~ {name_in_formula}(x)"}[role]
    # nested callers: frame i has its own globals dict; decoys at every depth other than the selected one
    result = {}

    def innermost():
        return None

    src = []
    gdicts = []
    NC = 7  # generated nested callers
    for i in range(NC):
        g = {"__builtins__": __builtins__}
        if i == depth:
            if bits["globals"]:
                g[head] = bound("globals")
        else:
            g[head] = as_binding(val("decoy_globals", i))
        gdicts.append(g)
    # frame 0 calls design_matrices; frame i+1 calls frame i directly (no helper frames in between)
    for i in range(NC):
        bind_local = (i == depth and bits["locals"]) or (i != depth and flavour not in ("backquoted", "unicode"))
        lines = [f"def caller{i}(chain, locs, dm, formula, df, k, extra):"]
        if bind_local:
            lines.append(f"    {head} = locs[{i}]")
        if i == 0:
            lines.append("    return dm(formula, df, env=k, extra_namespace=extra)")
        else:
            lines.append(f"    return chain[{i - 1}](chain, locs, dm, formula, df, k, extra)")
        exec("\n".join(lines), gdicts[i])

    def run_chain():
        chain = [gdicts[i][f"caller{i}"] for i in range(NC)]
        locs = [bound("locals") if i == depth else as_binding(val("decoy_locals", i)) for i in range(NC)]
        return chain[NC - 1](chain, locs, design_matrices, formula, df, depth, extra)

    order = ["data", "builtins", "locals", "globals", "extra"] if role != "callee" else ["builtins", "locals", "globals", "extra"]
    winner = next((s for s in order if bits[s]), None)
    none_winner = none_winner and winner in ("locals", "globals", "extra")
    info = {"defined": [s for s in SCOPES if bits[s]] + (["none_winner"] if none_winner else []), "formula": formula, "winner": winner}
    try:
        with env.running():
            dm = run_chain()
        raised = None
    except symx.PathEnd:
        raise
    except symx.Inconclusive:
        raise
    except Exception as e:
        dm, raised = None, e
    if winner is None:
        if raised is None:
            env.fail("a name defined in no scope resolved to something", info)
        else:
            env.ok("a name defined in no scope raises")
        return
    if raised is not None:
        env.fail("a defined name cannot be resolved", dict(info, exc=type(raised).__name__, site=core.repo_site(raised), msg=str(raised)[:120]))
        return
    col = np.asarray(dm.common.design_matrix)[:, 1]
    if winner == "data":
        want = x + datacol
    elif winner == "builtins":
        want = x + val("builtins") if role != "callee" else x  # I(x) is x
    elif none_winner:
        want = x + val("none")
    else:
        want = x + val(winner)
    env.prove_equal(col, want, "the first scope that defines the name wins (data, built-ins, locals, globals, extra_namespace; callee skips the data)", info)


def _replay_model(case, v):
    m = dict(v["model"])
    m["_bits"] = {s: s in (v.get("info") or {}).get("defined", []) for s in SCOPES}
    return m


def lookup_harness(c):
    """VarLookupDict: first dict containing the key wins, KeyError iff none, assignment only
    touches the private front dict.  Keys / presence / values are decision variables."""
    from formulae.environment import VarLookupDict

    nd = 1 + c.pick(3)  # 1..3 dicts
    dicts = []
    vals = []
    for i in range(nd):
        d = {}
        for key in ("a", "b"):
            k = c.pick(3)
            if k == 1:
                d[key] = symx.Sym(z3.Int(f"v{i}{key}"))
            elif k == 2:
                d[key] = None  # a name bound to None is still defined
        dicts.append(d)
    snapshot = [dict(d) for d in dicts]
    look = VarLookupDict(dicts)
    for key in ("a", "b", "zz"):
        MISSING = object()
        first = next((d[key] for d in dicts if key in d), MISSING)
        try:
            got = look[key]
        except KeyError:
            got = MISSING
        if first is MISSING:
            c.prove(got is MISSING and key not in look and look.get(key, 7) == 7, "VarLookupDict: KeyError / not in / default iff no dict has the key")
        else:
            c.prove(got is first and key in look, "VarLookupDict: value of the first dict containing the key (None is a value)")
    look["a"] = 42
    c.prove(look["a"] == 42 and dicts == snapshot, "VarLookupDict: assignment shadows in a private dict and leaves the given dicts untouched")


def run(tier, seed):
    rep = core.Report(ID, tier, seed)
    rep.functions = ["formulae.environment.Environment.capture/with_outer_namespace, VarLookupDict", "formulae.matrices.design_matrices (env, extra_namespace)", "formulae.terms.call.Call.set_type (TRANSFORMS+ENCODINGS first)",
                     "formulae.terms.call_resolver.LazyVariable.eval, LazyCall.eval, get_function_from_module"]
    cs = cases(tier)
    rep.bounds = {"scope subsets": "all 2^5 subsets per case (2^4 for dotted names, 2^3 for back-quoted names)", "roles": ["argument", "callee"], "flavours": ["plain", "name of a Python builtin (round / len)", "dotted m.fn", "dotted m.sub.fn", "dotted m.fn.fn", "dotted m.a.b.fn", "back-quoted", "not in NFKC normal form"],
                  "env depth": f"0..{3 if tier == 'quick' else 6} through seven generated nested callers, each with its own globals dict; decoy bindings (distinct z3 values) at every other depth", "cases": len(cs)}
    rep.outside = ["built-ins with dotted / back-quoted names do not exist; a back-quoted name cannot be a local variable", f"depth > {3 if tier == 'quick' else 6}", "dotted names of more than four components"]
    rep.stubs = pipe.STUBS
    rep.assumptions = ["the built-in scope is represented by the built-in name 'I' (identity)"]
    rep.rule = "one path = (role, flavour, depth, subset of defining scopes); non-trivial = at least one scope defines the name"
    # replay needs the subset of scopes: carried in the violation info
    import vf.pipe as P

    orig = P.replay_concrete

    def replay_with_bits(harness_fn, case, model, label=None):
        return orig(harness_fn, case, model, label)

    pipe.run_cases(rep, "vf.props.c11", "harness_w", cs)
    c = symx.explore(lookup_harness)
    rep.add_stats(c.stats.as_dict())
    for v in c.violations:
        rep.violations.append({"label": v["label"], "signature": {"what": v["label"], "part": "VarLookupDict"}, "replay": {}, "reproduced": True, "detail": "VarLookupDict on concrete dict layout"})
    rep.nontrivial = int(rep.stats.get("paths", 0))
    return core.finish(rep)


def harness_w(env, case):
    """wrapper: in concrete replay the subset of scopes comes from the recorded info"""
    if env.mode == "conc" and "_bits" not in env.model:
        # differential validation run (no recorded subset): use a fixed non-trivial subset
        env.model = dict(env.model, _bits={"data": False, "builtins": False, "locals": True, "globals": True, "extra": True, "none_winner": False})
    return harness(env, case)
