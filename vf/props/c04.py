"""C04 -- every design-matrix column holds exactly what its label says.

Numeric cells are z3 reals; the frame is the complete factorial of the categorical level sets
(every possible categorical row occurs) so one symbolic run covers every frame with those level
sets.  Formula, categorical flavour and row order are enumerated decision variables.
Obligation: entry[i, j] == LabelMeaning(label_j)(row_i) as a polynomial identity (z3).
"""
import itertools

import numpy as np
import pandas as pd

from vf import core, gen, pipe, symx

ID = "C04"
LV = [2, 3, 1]


def formulas(tier):
    out = []
    vars3 = ["x", "f", "g"]
    vars5 = ["x", "z", "f", "g", "h"]
    # single interaction terms, every factor order, with / without intercept
    base = gen.interactions(vars3, 3) if tier == "quick" else gen.interactions(vars5, 3)
    for t in base:
        out.append(f"y ~ {t}")
        out.append(f"y ~ 0 + {t}")
    # margins then interaction (both factor orders)
    pairs = list(itertools.permutations(vars3 if tier == "quick" else vars5, 2))
    for a, b in pairs:
        out.append(f"y ~ {a} + {b} + {a}:{b}")
        out.append(f"y ~ {a}*{b}")
    for a, b, c in itertools.permutations(["x", "f", "g", "h"], 3):
        if tier == "quick" and (a, b, c) not in [("x", "f", "g"), ("f", "x", "g"), ("g", "f", "x"), ("h", "g", "f"), ("f", "h", "x")]:
            continue
        out.append(f"y ~ {a} + {b} + {c} + {a}:{b} + {a}:{c} + {b}:{c} + {a}:{b}:{c}")
    # integer-coded categorical through C()
    out += ["y ~ C(k)", "y ~ 0 + C(k)", "y ~ x + C(k):x", "y ~ f + C(k) + f:C(k)", "y ~ C(k):f", "y ~ x:C(k):f"]
    # declared level orders through C(): explicit levels= (lv = [2, 3, 1]) and (ordered) categorical columns
    out += ["y ~ C(k, levels=lv)", "y ~ 0 + C(k, levels=lv)", "y ~ x:C(k, levels=lv)", "y ~ f:C(k, levels=lv)",
            "y ~ C(g)", "y ~ 0 + C(g) + x", "y ~ C(f):x", "y ~ C(g):f", "y ~ (1|C(g))", "y ~ (0 + C(f)|g)"]
    # group-specific terms
    effects = ["1", "x", "f", "x:f", "0 + x", "0 + f", "f:x"]
    groups = ["g", "g:h", "h:g"] if tier != "quick" else ["g", "g:h"]
    for e in effects:
        for g in groups:
            out.append(f"y ~ x + ({e}|{g})")
    out += ["y ~ (x|g) + (x|h)", "y ~ (f|g + h)", "y ~ (f|g + h) - (1|h)", "y ~ (x + f|g)", "y ~ (0 + x:f|g)", "y ~ (1|C(k))", "y ~ (x|C(k))"]
    # user-chosen reference levels (positions 0, 1, 2 of the level order)
    out += ["y ~ T(g, 's')", "y ~ T(g, 't')", "y ~ T(g, 'u')", "y ~ x:C(g, Treatment('u'))", "y ~ T(h, 'r') + f", "y ~ T(k, 3)"]
    # operator spellings that build several terms from one written factor
    out += ["y ~ f/g", "y ~ f/x", "y ~ g/f/x", "y ~ f:(g + x)", "y ~ (f + g)**2", "y ~ 0 + (f + g)**2", "y ~ f*g*x", "y ~ (f + g):x", "y ~ x/f"]
    # categorical / subset responses
    out += ["f ~ x", "g ~ x + f", "g[t] ~ x", "f['a'] ~ g"]
    # a call that yields several numeric columns, before and after a factor, alone and on the effect side
    out += ["y ~ poly(x, 2, raw=True)", "y ~ poly(x, 2, raw=True):g", "y ~ 0 + poly(x, 2, raw=True):f", "y ~ g:poly(x, 2, raw=True)", "y ~ (0 + poly(x, 2, raw=True):f|g)", "y ~ x + (poly(x, 2, raw=True)|g)", "y ~ poly(x, 3, raw=True):z"]
    # numeric ids with many digits (ints and floats) as levels and as groups
    out += ["y ~ C(kb)", "y ~ 0 + x:C(kb)", "y ~ (1|kb)", "y ~ C(kf)", "y ~ (x|kf)", "y ~ f:C(kf)"]
    return out


def family_formulas(step):
    """every step-th formula of the C03 base family (all ordered families of <= 3 terms over f, g, h, x)"""
    from vf.props import c03

    base, _ = c03.families("quick")
    return [c03.formula_of(fam, ic) for i, (fam, ic) in enumerate(base) if i % step == 0]


def cases(tier):
    fl = formulas(tier)
    if tier != "quick":
        fl = fl + family_formulas(1)
    flav = ["str", "cat", "ord"]
    orders = ["sorted", "reversed", "scramble"]
    out = []
    for i, f in enumerate(fl):
        for fv in flav:
            for o in orders:
                if (tier == "quick" or i >= len(formulas(tier))) and (i + flav.index(fv) + orders.index(o)) % 3 != 0:
                    continue  # quick (and the large family of the thorough tier): each formula with 3 of the 9 (flavour, order) combinations
                out.append((f, fv, o))
    # frames with several thousand rows (block-wise implementations): just over a power of two
    for n in ([4100] if tier == "quick" else [4100, 8200, 16390]):
        out.append(("y ~ x:f + g", "str", f"sorted@{n}"))
        out.append(("y ~ x + (x|g)", "str", f"scramble@{n}"))
    return out


def signature(case, v):
    return {"formula": case[0], "flavour": case[1], "order": case[2], "what": v["label"].split(" [")[0]}


def check_matrix(env, X, labels, rows, what, flavour):
    X = np.asarray(X)
    if X.ndim == 1:
        X = X[:, None]
    if not env.prove(len(labels) == X.shape[1], f"{what}: as many labels as columns"):
        return
    if not env.prove(len(set(labels)) == len(labels), f"{what}: labels are unique"):
        return
    try:
        E = gen.expected_matrix(labels, rows)
    except KeyError as e:
        env.fail(f"{what}: label cannot be interpreted", str(e))
        return
    env.prove_equal(X, E, f"{what}: entry == LabelMeaning(label)")
    # level order: for every variable, the levels appear in expected (sorted / declared) order
    seen = {}
    for l in labels:
        pl = gen.label_levels(l, raw=True)
        if len(pl) == 1:  # labels with one level determine the order, term by term
            import re as _re

            key = pl[0][0] + (_re.sub(r"\[[^\[\]]*\]", "[]", l),)
            seen.setdefault(key, [])
            if pl[0][1] not in seen[key]:
                seen[key].append(pl[0][1])
    for (var, rawname, _template), lv in seen.items():
        if var not in gen.LEVELS:
            continue
        want = [str(x) for x in (LV if "levels=lv" in rawname.replace(" ", "") else gen.level_order(var, flavour))]
        pos = [want.index(x) for x in lv if x in want]
        env.prove(pos == sorted(pos) and len(pos) == len(lv), f"{what}: levels in sorted / declared order")


def harness(env, case):
    from formulae import design_matrices

    formula, flavour, order = case
    vars_ = gen.used_vars(formula)
    # a numeric response named y unless the formula has another response
    reps = 1
    if "@" in order:
        order, nrows = order.split("@")
        cells = 1
        for v in vars_:
            cells *= len(gen.LEVELS.get(v, [0]))
        reps = -(-int(nrows) // cells)
    df, rows = gen.build_frame(env, vars_, flavour, order, reps=reps)
    try:
        with env.running():
            dm = design_matrices(formula, df, extra_namespace={"lv": list(LV)})
    except symx.PathEnd:
        raise
    except Exception as e:  # 'In every design ...': no design, nothing to check (counted)
        if env.mode == "sym":
            env.c.reach(f"no design: {type(e).__name__} at {core.repo_site(e)}")
        return
    if env.mode == "sym":
        env.c.reach("design built")
    try:
        if dm.common is not None:
            cdf = dm.common.as_dataframe()
            labels = [str(c) for c in cdf.columns]
            check_matrix(env, dm.common.design_matrix, labels, rows, "common", flavour)
            env.prove_equal(cdf.values, dm.common.design_matrix, "common: as_dataframe values == design_matrix")
        if dm.group is not None:
            for name, term in dm.group.terms.items():
                check_matrix(env, dm.group[name], list(term.labels), rows, "group", flavour)
        if dm.response is not None and dm.response.kind == "categoric":
            rdf = dm.response.as_dataframe()
            labels = [str(c) for c in rdf.columns]
            # a response written y[l] is a single indicator column labelled y[l]
            check_matrix(env, dm.response.design_matrix, labels, rows, "response", flavour)
    except symx.PathEnd:
        raise
    except symx.Inconclusive:
        raise
    except Exception as e:
        env.fail("labels/columns cannot be put together: " + type(e).__name__, {"exc": str(e)[:200], "site": core.repo_site(e)})


def concrete_integer_columns(rep):
    """columns of small integer dtypes: a label joining pieces with ':' is their product over the integers
    (plain API, exact integer comparison; the symbolic cells of the other cases are reals)"""
    from formulae import design_matrices

    ints = {"a": [10, 20, 40, 64, 100, 127], "d": [2, 7, 10, 12, 100, 127], "e": [3, 1, 5, 2, 90, 127]}
    n = 0
    for dt in ("int8", "uint8", "int16", "int32", "int64"):
        df = pd.DataFrame({k: np.array(v, dtype=dt) for k, v in ints.items()})
        df["y"] = [0.5, 1.5, 2.5, 3.5, 4.5, 5.5]
        df["g"] = list("ababab")
        for f in ("y ~ 0 + a:d", "y ~ a*d", "y ~ 0 + a:d:e", "y ~ 0 + a:d:g", "y ~ 0 + g:a:d", "y ~ (0 + a:d|g)"):
            n += 1
            try:
                dm = design_matrices(f, df)
            except Exception as e:  # noqa
                rep.violations.append({"label": "labels/columns cannot be put together: " + type(e).__name__, "signature": {"what": "integer columns", "formula": f, "dtype": dt, "exc": type(e).__name__},
                                       "replay": {"formula": f, "dtype": dt}, "reproduced": True, "detail": f"{f} on {dt}: {type(e).__name__}: {e}"[:200]})
                continue
            rows = [{k: int(df[k].iloc[i]) if k in ints else df[k].iloc[i] for k in ("a", "d", "e", "g")} for i in range(len(df))]
            for what, M, labels in ([("common", dm.common.design_matrix, [str(c) for c in dm.common.as_dataframe().columns])] if dm.common is not None else []) + \
                    [("group", dm.group[name], list(t.labels)) for name, t in (dm.group.terms.items() if dm.group is not None else [])]:
                E = gen.expected_matrix(labels, rows)
                X = np.asarray(M)
                X = X[:, None] if X.ndim == 1 else X
                if X.shape != E.shape or any(int(X[i, j]) != int(E[i, j]) for i in range(E.shape[0]) for j in range(E.shape[1])):
                    rep.violations.append({"label": f"{what}: entry == LabelMeaning(label)", "signature": {"what": "integer columns", "formula": f, "dtype": dt},
                                           "replay": {"formula": f, "dtype": dt, "got": X.tolist(), "want": E.tolist()}, "reproduced": True, "detail": f"{f} on {dt} columns: {X.tolist()[3:5]} instead of {E.tolist()[3:5]}"[:300]})
                    break
    rep.extra["concrete_integer_designs"] = n


def missing_level_rows(rep):
    """a row whose categorical value is missing (kept with na_action='pass') equals no level: no column
    labelled v[l], and no slot of a group (e|v[l]), is 1 there (plain API; ordered categorical columns, the
    only kind for which the pinned code accepts missing values)"""
    from formulae import design_matrices

    core.silence_logging()
    o = pd.Categorical(["lo", "mid", None, "hi", "lo", "hi", "mid", None], categories=["lo", "mid", "hi"], ordered=True)
    df = pd.DataFrame({"y": [1.0, 2.0, 0.5, 4.0, 3.0, 2.5, 1.5, 0.0], "x": [1.0, 2.0, 3.0, 5.0, 8.0, 13.0, 21.0, 34.0], "o": o})
    miss = [2, 7]
    n = 0
    for f in ("y ~ 0 + o", "y ~ x + o", "y ~ 0 + o:x", "y ~ x + (1|o)", "y ~ (0 + x|o)"):
        n += 1
        try:
            dm = design_matrices(f, df, na_action="pass")
        except Exception:  # noqa -- a refusal is not a wrong label
            continue
        blocks = []
        if dm.common is not None:
            blocks.append(([str(c) for c in dm.common.as_dataframe().columns], np.asarray(dm.common.design_matrix, dtype=float)))
        if dm.group is not None:
            for name, t in dm.group.terms.items():
                blocks.append((list(t.labels), np.asarray(dm.group[name], dtype=float)))
        for labels, X in blocks:
            X = X[:, None] if X.ndim == 1 else X
            for j, lab in enumerate(labels):
                if "o[" in lab and any(X[i, j] == (1.0 if ":x" not in lab and not lab.startswith("x|") else df["x"][i]) for i in miss):
                    rep.violations.append({"label": "a row with a missing categorical value is coded as one of the levels", "signature": {"what": "missing level coded as a level", "formula": f, "label": lab},
                                           "replay": {"formula": f, "label": lab, "column": X[:, j].tolist()}, "reproduced": True, "detail": f"{f} (na_action='pass'): column {lab!r} = {X[:, j].tolist()} although o is missing in rows {miss}"})
                    break
    rep.extra["missing_level_formulas"] = n


def run(tier, seed):
    rep = core.Report(ID, tier, seed)
    rep.functions = [
        "formulae.matrices.design_matrices / DesignMatrices / CommonEffectsMatrix.evaluate,as_dataframe / GroupEffectsMatrix.evaluate,__getitem__ / ResponseMatrix.as_dataframe",
        "formulae.terms.terms.Model.eval, Term.set_type/set_data/labels, GroupSpecificTerm.set_type/set_data/labels",
        "formulae.terms.variable.Variable.*, formulae.terms.call.Call.* (C()), formulae.utils.get_interaction_matrix, scipy.linalg.khatri_rao on object arrays",
    ]
    cs = cases(tier)
    rep.bounds = {
        "formulas": f"{len(formulas(tier))} formulas: interactions of arity <= 3 in every factor order over {'x f g' if tier == 'quick' else 'x z f g h'}, margins+interaction, C(k), group-specific terms (e|g) with e in 1,x,f,x:f,0+x,0+f and g in g, g:h, categorical / y[level] responses",
        "frames": "complete factorial of the used categorical level sets (f:2, g:3, h:4, k:3 levels; declared order non-alphabetical) x numeric cells = fresh z3 reals; flavours str / Categorical / ordered Categorical; row order sorted / reversed / scrambled",
        "cases": len(cs),
    }
    rep.outside = ["non-treatment codings (Sum) -- their labels do not denote indicators (C13)", "level counts above 4; numeric transforms (C14/C16)", "floating point: cells are mathematical reals"]
    rep.stubs = pipe.STUBS
    rep.assumptions = ["LabelMeaning oracle (vf/gen.py: label_value) written from the C04 statement", "a formula whose design cannot be built (exception) is no design: counted in reach, not a violation of C04"]
    rep.rule = "one case = (formula, categorical flavour, row order) run once on symbolic numeric cells; non-trivial = a design was built and at least one matrix checked"
    pipe.run_cases(rep, "vf.props.c04", "harness", cs)
    concrete_integer_columns(rep)
    missing_level_rows(rep)
    rep.nontrivial = int(rep.reach.get("design built", 0))
    if rep.nontrivial == 0:
        rep.inconclusive.append("vacuous: no design was built")
    return core.finish(rep)
