"""C05 -- group-specific blocks: group indicators x effect columns, lme4 intercept rules.

S part (z3-real numeric cells): every term (e|g) is the row-wise Kronecker product of the
complete indicator matrix of g (levels sorted, cells of g1:g2 lexicographic) with one set of
effect columns: entries outside the row's own group are 0 and the p effect values of a row are
the same wherever they are placed; groups are listed in sorted order.
L part (exact integer data, z3 QF_LRA): the columns of all terms that share a grouping factor
are linearly independent and span ModelSpace(effect expression) (x) indicators(g).
"""
import itertools
import re

import numpy as np
import pandas as pd

from vf import core, gen, linalg, pipe, symx
from vf.props import c03

ID = "C05"
# effect expressions: (text, list of effect terms (None = intercept only))
EFFECTS = [("1", []), ("x", ["x"]), ("f", ["f"]), ("x + f", ["x", "f"]), ("f:h", ["f:h"]), ("f + f:h", ["f", "f:h"]), ("x:f", ["x:f"]), ("f + h", ["f", "h"]), ("x + x:f", ["x", "x:f"]), ("f + x:f", ["f", "x:f"]), ("f*h", ["f", "h", "f:h"]),
           ("f:h:m", ["f:h:m"]), ("f + f:h:m", ["f", "f:h:m"]), ("f:h + f:h:m", ["f:h", "f:h:m"])]
GROUPINGS = [("g", ["g"]), ("g:j", ["g:j"]), ("g + j", ["g", "j"]), ("g/j", ["g", "g:j"]), ("C(k)", ["C(k)"])]


def l_cases(tier):
    out = []
    for (etext, eterms) in EFFECTS:
        for (gtext, gfacs) in GROUPINGS:
            if tier == "quick" and gtext in ("g/j", "g:j") and len(eterms) > 1:
                continue
            if "m" in etext and gtext != "g":
                continue  # three-factor effects: single grouping factor only (frame size)
            for no_int in (False, True):
                if no_int and etext == "1":
                    continue
                out.append((etext, eterms, gtext, gfacs, no_int))
    if tier != "quick":
        # the whole family: every ordered list of <= 3 effect terms over the factor sets of {f, h, x}
        # (and over {f, h, x, m}), every factor order as generated, with and without the intercept
        seen = {(e, g, n) for e, _, g, _, n in out}
        for vars_, kmax in ((["f", "h", "x"], 3), (["f", "h", "x", "m"], 3)):
            subs = [":".join(c) for r in range(1, len(vars_) + 1) for c in itertools.combinations(vars_, r)]
            for k in range(1, kmax + 1):
                for combo in itertools.permutations(subs, k):
                    etext = " + ".join(combo)
                    for gtext, gfacs in (("g", ["g"]),) + ((("C(k)", ["C(k)"]),) if k == 1 and "m" not in etext else ()):
                        for no_int in (False, True):
                            if (etext, gtext, no_int) not in seen:
                                seen.add((etext, gtext, no_int))
                                out.append((etext, list(combo), gtext, gfacs, no_int))
    # separately written terms sharing a factor
    out.append(("@(1|g) + (0 + f|g)", ["f"], "g", ["g"], False))
    out.append(("@(0 + f|g) + (1|g)", ["f"], "g", ["g"], False))
    out.append(("@(x|g) + (0 + f|g)", ["x", "f"], "g", ["g"], False))
    out.append(("@(0 + x|g) + (f|g)", ["x", "f"], "g", ["g"], False))
    out.append(("@(1|g) + (0 + f|g + j)", ["f"], "g + j", ["g", "j"], "mixed"))
    out.append(("@(x|g:j) + (z|j:g)", ["x", "z"], "g:j", ["g:j"], False))
    out.append(("@(1|g:j) + (x|j:g)", ["x"], "g:j", ["g:j"], False))
    return out


def check_l(case, seed):
    from formulae import design_matrices

    etext, eterms, gtext, gfacs, no_int = case
    if etext.startswith("@"):
        formula = "y ~ " + etext[1:]
    else:
        formula = f"y ~ ({'0 + ' if no_int else ''}{etext}|{gtext})"
    vars_ = []
    for name in re.findall(r"[a-z]", formula.replace("y ~", "")):
        if name in c03.LEV or name in ("x", "z"):
            if name not in vars_:
                vars_.append(name)
    for fac in gfacs:
        for v, a in c03.atom_vars(fac):
            if v not in vars_:
                vars_.append(v)
    cats = [v for v in vars_ if v in c03.LEV]
    nums = [v for v in vars_ if v not in c03.LEV]
    failures = []
    for attempt in range(2):
        df, _ = c03.frame(cats, nums, seed + 31 * attempt, reps=3)
        try:
            import contextlib, io

            with contextlib.redirect_stdout(io.StringIO()):
                dm = design_matrices(formula, df)
        except Exception as e:
            return {"outcome": "violation", "what": "design cannot be built", "exc": type(e).__name__, "site": core.repo_site(e), "formula": formula, "detail": str(e)[:160]}
        res_attempt = None
        for fac in gfacs:
            cols = [np.asarray(dm.group[name]) for name, t in dm.group.terms.items() if set(t.factor.name.split(":")) == set(fac.split(":"))]
            if not cols:
                res_attempt = ("missing", f"no term for grouping factor {fac}")
                break
            Z = np.column_stack(cols)
            # reference: effect model space (x) complete indicators of the factor cells
            has_int = (not no_int) if no_int != "mixed" else (fac == "g")
            E = c03.model_space(eterms, has_int, df)
            fvars = [v for v, a in c03.atom_vars(fac)]
            cells = list(itertools.product(*[c03.LEV[v] for v in fvars]))
            blocks = []
            for cell in cells:
                ind = np.ones(len(df), dtype=np.int64)
                for v, l in zip(fvars, cell):
                    ind = ind * (df[v].values == l)
                blocks.append(E * ind[:, None])
            R = np.column_stack(blocks)
            full, dep = linalg.full_column_rank(Z)
            if full is None:
                return {"outcome": "unknown", "formula": formula}
            if not full:
                res_attempt = ("rank", f"columns of factor {fac} linearly dependent ({Z.shape[1]} columns)")
                break
            same, why = linalg.same_span(Z, R)
            if same is None:
                return {"outcome": "unknown", "formula": formula}
            if not same:
                res_attempt = ("span", f"factor {fac}: {why} ({Z.shape[1]} columns, group-by-cell space of dimension {c03.frac_rank(R)})")
                break
        if res_attempt is None:
            return {"outcome": "ok", "formula": formula}
        failures.append(res_attempt)
    kinds = {k for k, _ in failures}
    what = "columns of one grouping factor are linearly dependent" if "rank" in kinds else ("columns of one grouping factor do not span the group-by-cell means" if "span" in kinds else "grouping factor without term")
    return {"outcome": "violation", "what": what, "formula": formula, "detail": failures[0][1]}


def _work_l(job):
    core.setup_paths()
    core.silence_logging()
    out = []
    for case in job["items"]:
        r = check_l(case, job["seed"])
        if r["outcome"] == "violation":
            r["reproduced"] = True  # decided on the plain API with exact data; ranks re-derived below
        out.append(r)
    return {"results": out, "queries": linalg.STATS.queries, "solver_s": linalg.STATS.solver_s}


# ---------------------------------------------------------------------------------- S part
S_FORMULAS = ["y ~ (1|g)", "y ~ (x|g)", "y ~ (f|g)", "y ~ (0 + f|g)", "y ~ (x + f|g)", "y ~ (x:f|g)", "y ~ (x|g:h)", "y ~ (f|h:g)", "y ~ (x|g + h)", "y ~ (x|g/f)", "y ~ (0 + x|C(k))", "y ~ (f:x|C(k))",
              "y ~ (1|g) + (0 + f|g)", "y ~ x + (center(x)|g)", "y ~ (poly(x, 2, raw=True)|g)",
              # numeric group ids whose numeric and lexicographic orders differ; grouping factors of three components
              "y ~ (x|kb)", "y ~ (1|kb:f)", "y ~ (1|g:h:f)", "y ~ (x|f:g:h)", "y ~ (1|g/f/h)",
              "y ~ (0 + C(h, Sum)|g)", "y ~ (C(f, Sum)|g)", "y ~ (0 + S(f):x|g)"]


def s_cases(tier):
    out = []
    for f in S_FORMULAS:
        for fv in ("str", "cat", "ord"):
            for o in ("sorted", "scramble", "reversed"):
                if tier == "quick" and (S_FORMULAS.index(f) + ("str", "cat", "ord").index(fv) + ("sorted", "scramble", "reversed").index(o)) % 3:
                    continue
                out.append((f, fv, o))
    return out


def signature(case, v):
    return {"part": "blocks", "formula": case[0], "flavour": case[1], "order": case[2], "what": v["label"].split(" [")[0]}


def harness(env, case):
    from formulae import design_matrices

    formula, flavour, order = case
    vars_ = gen.used_vars(formula)
    df, rows = gen.build_frame(env, vars_, flavour, order, min_rows=4)
    n = len(df)
    try:
        with env.running():
            dm = design_matrices(formula, df)
    except symx.PathEnd:
        raise
    except Exception as e:
        env.fail("group design cannot be built", {"exc": type(e).__name__, "site": core.repo_site(e)})
        return
    for name, term in dm.group.terms.items():
        try:
            Z = np.asarray(dm.group[name])
        except symx.PathEnd:
            raise
        except Exception:  # noqa -- access by name is C17's subject; the block itself is read through the slices
            try:
                Z = np.asarray(dm.group.design_matrix)[:, dm.group.slices[name]]
            except Exception as e:
                raise symx.Inconclusive(f"the block of {name} cannot be read: {type(e).__name__}")
        fvars = []
        for comp in term.factor.components:
            m = re.match(r"^[CTS]\((\w+)", comp.name)
            fvars.append(m.group(1) if m else comp.name)
        want_groups = [":".join(str(l) for l in cell) for cell in itertools.product(*[gen.level_order(v, flavour) for v in fvars])]
        if not env.prove(list(term.groups) == want_groups, "groups: sorted levels (declared order for ordered data), cells of g1:g2 lexicographic"):
            continue
        G = len(want_groups)
        if not env.prove(Z.shape[1] % G == 0 and Z.shape[1] > 0, "block width is a multiple of the number of groups"):
            continue
        p = Z.shape[1] // G
        own = [want_groups.index(":".join(str(r[v]) for v in fvars)) for r in rows]
        zero = np.zeros((n, Z.shape[1]), dtype=object)
        E = np.empty((n, p), dtype=object)
        for i in range(n):
            E[i, :] = Z[i, own[i] * p : (own[i] + 1) * p]
            zero[i, own[i] * p : (own[i] + 1) * p] = E[i, :]
        env.prove_equal(Z, zero, "every row is non-zero only in the slots of its own group")
        # the effect values are those of the effect expression evaluated as common effects
        eff = name.split("|")[0]
        for coding in (f"y ~ 0 + {eff}", f"y ~ 1 + {eff}"):
            try:
                with env.running():
                    cm = design_matrices(coding, df)
                cand = np.asarray(cm.common[eff] if eff != "1" else cm.common["Intercept"]).reshape(n, -1)
            except symx.PathEnd:
                raise
            except Exception:  # noqa
                continue
            if cand.shape == E.shape and env.same(cand, E):
                env.ok("effect columns equal the common-effects coding (full or reduced) of the effect term")
                break
        else:
            env.fail("effect columns are neither the full nor the reduced common-effects coding of the effect term", {"term": name})


def run(tier, seed):
    rep = core.Report(ID, tier, seed)
    rep.functions = ["formulae.terms.terms.GroupSpecificTerm.set_type/set_data/labels/groups", "group loop of formulae.terms.terms.Model.eval (full/reduced rule)", "Term.__or__/Model.__or__/Intercept.__or__",
                     "formulae.matrices.GroupEffectsMatrix.evaluate", "scipy.linalg.khatri_rao on object arrays"]
    lc = l_cases(tier)
    sc = s_cases(tier)
    rep.bounds = {"L part": f"{len(lc)} (effect expression, grouping expression, with/without 0 +) combinations: effects {[e for e, _ in EFFECTS]}, groupings {[g for g, _ in GROUPINGS]}, plus separately written terms sharing a factor; 3x replicated complete factorial integer data",
                  "S part": f"{len(sc)} (formula, flavour, row order) cases over {len(S_FORMULAS)} formulas, numeric cells z3 reals"}
    rep.outside = ["level counts above 3; more than two grouping variables", "floats"]
    rep.stubs = pipe.STUBS
    rep.assumptions = ["general position by integer pseudo-random data (L part); deficiencies re-tested at a second point"]
    rep.rule = "L: one case = one formula, decided per grouping factor; S: one case = (formula, flavour, order); non-trivial = all"
    pipe.run_cases(rep, "vf.props.c05", "harness", sc)
    chunks = [lc[i::32] for i in range(32)]
    nq, ss = 0, 0.0
    for r in core.pmap(_work_l, [{"items": ch, "seed": seed} for ch in chunks if ch]):
        nq += r["queries"]
        ss += r["solver_s"]
        for x in r["results"]:
            rep.cases += 1
            rep.stats["obligations"] = rep.stats.get("obligations", 0) + 1
            if x["outcome"] == "ok":
                rep.stats["discharged"] = rep.stats.get("discharged", 0) + 1
                rep.add_sample({"formula": x["formula"], "verdict": "independent, spans group-by-cell means"}, limit=8)
            elif x["outcome"] == "unknown":
                rep.inconclusive.append(f"solver unknown on {x['formula']}")
            else:
                sig = {"part": "rank/span", "formula": x["formula"], "what": x["what"]}
                if "exc" in x:
                    sig["exc"], sig["site"] = x["exc"], x["site"]
                rep.violations.append({"label": x["what"], "signature": sig, "replay": x, "reproduced": True, "detail": x["detail"]})
                rep.replayed += 1
    rep.stats["solver_queries"] = rep.stats.get("solver_queries", 0) + nq
    rep.stats["solver_s"] = rep.stats.get("solver_s", 0.0) + ss
    rep.stats["paths"] = rep.stats.get("paths", 0) + len(lc)
    rep.nontrivial = rep.cases
    return core.finish(rep)
