"""C07 -- designs are isolated: no state leaks across evaluations, designs or calls.

A history is a sequence of K operations chosen by decision variables (explored exhaustively):
build a design from (formula, frame), evaluate the common / group matrix of an existing design
on a frame, set the configuration.  After every step, each result is compared -- as z3 terms,
numeric cells are z3 reals -- with the reference obtained by performing that single operation on
FRESHLY IMPORTED formulae modules (fresh registries, config and class state), every earlier
result and every training matrix is re-read and must be unchanged, and the caller's frames and
namespace must be untouched.
"""
import sys

import numpy as np
import pandas as pd

from vf import core, gen, pipe, symx

ID = "C07"
FORMULAS = ["y ~ center(x) + g", "y ~ C(k) + C(g) + x + (0 + f + C(k) + x|g)", "y ~ poly(x, 2, raw=True):f + scale(z)", "y ~ x + f + (1|g) + (f|h)", "y ~ shift(x) + g"]
MODES = ["error", "silent", "warning"]


class Shift:
    __stateful_transform__ = True

    def __init__(self):
        self.params_set = False
        self.first = None

    def __call__(self, x):
        if not self.params_set:
            self.first = x.iloc[0] if hasattr(x, "iloc") else x[0]
            self.params_set = True
        return x - self.first


def fresh_formulae(sym):
    """freshly imported formulae package (new module objects, registries, config, classes)"""
    for k in list(sys.modules):
        if k == "formulae" or k.startswith("formulae."):
            del sys.modules[k]
    import importlib.metadata as _md

    real_version = _md.version
    _md.version = lambda name: "0"  # formulae/__init__ looks its version up in the metadata: ~50 ms per import
    try:
        import formulae  # noqa
    finally:
        _md.version = real_version

    pipe._installed = False
    if sym:
        pipe.install_stubs()
    core.silence_logging()
    return sys.modules["formulae"]


def frames(env):
    out = []
    for b, (prefix, order, unseen) in enumerate((("a_", "sorted", False), ("b_", "scramble", False), ("c_", "reversed", True))):
        cols = ["y", "x", "z", "f", "g", "k"] + (["h"] if harness.tier != "quick" else [])  # quick: 18-row frames
        df, rows = gen.build_frame(env, cols, "str", order, prefix=prefix)
        if b == 1:
            df["k"] = df["k"].astype(float)  # the same ids stored as floats in another table
            df["f"] = np.array([1.0 if v == "a" else 0.0 for v in df["f"]])  # ... and f recoded as a number there
        df = df.iloc[: 8 if b else len(df)].reset_index(drop=True) if b else df
        if unseen:
            col = list(df["g"].values)
            col[1] = "zz"
            df["g"] = pd.Series(col, dtype="str")
        out.append(df)
    return out


def snap_matrix(m):
    if m is None:
        return None
    s = {"X": np.array(m.design_matrix, copy=True)}  # snapshots are copies: an in-place change of the object must show
    if hasattr(m, "slices"):
        s["slices"] = {k: (v.start, v.stop) for k, v in m.slices.items()}
        s["by_name"] = {k: np.array(m[k], copy=True) for k in m.terms}
    if hasattr(m, "factors_with_new_levels"):
        s["new_levels"] = tuple(m.factors_with_new_levels)
    return s


def snap_design(dm):
    s = {"response": snap_matrix(dm.response), "common": snap_matrix(dm.common), "group": snap_matrix(dm.group)}
    if dm.common is not None:
        s["labels"] = [str(c) for c in dm.common.as_dataframe().columns]
    if dm.group is not None:
        s["glabels"] = [l for t in dm.group.terms.values() for l in t.labels]
    return s


def snap_frame(df):
    return {"columns": list(df.columns), "dtypes": [str(t) for t in df.dtypes], "index": list(df.index), "cells": {c: list(df[c].values) for c in df.columns}}


def same_snap(env, a, b, label, info):
    """deep comparison; arrays as z3 terms"""
    if isinstance(a, dict) and isinstance(b, dict):
        if not env.prove(sorted(a) == sorted(b), label + " (structure)", info):
            return False
        ok = True
        for k in a:
            ok = same_snap(env, a[k], b[k], label, info) and ok
        return ok
    if isinstance(a, np.ndarray) or isinstance(b, np.ndarray):
        a, b = np.asarray(a), np.asarray(b)
        if a.dtype == object or b.dtype == object or a.dtype.kind in "US" or b.dtype.kind in "US":
            # a numeric term evaluated on a frame where the column holds labels: text cells are compared as text
            sa = [(i, v) for i, v in enumerate(a.ravel().tolist()) if isinstance(v, str)]
            sb = [(i, v) for i, v in enumerate(b.ravel().tolist()) if isinstance(v, str)]
            if sa or sb:
                if not env.prove(a.shape == b.shape and sa == sb, label + " (text cells)", info):
                    return False
                a, b = a.astype(object).copy(), b.astype(object).copy()
                for i, _ in sa:
                    a.ravel()[i] = 0
                    b.ravel()[i] = 0
        return env.prove_equal(a, b, label, info)
    if isinstance(a, list) and a and isinstance(a[0], (symx.Sym, float)) and not isinstance(a[0], bool):
        return env.prove_equal(np.array(a, dtype=object), np.array(b, dtype=object), label, info)
    return env.prove(a == b if not isinstance(a, tuple) or True else False, label, info) if not _is_exc(a, b) else env.prove(type(a) is type(b), label, info)


def _is_exc(a, b):
    return isinstance(a, BaseException) or isinstance(b, BaseException)


def do_op(F, op, designs, frs, ns, env):
    """perform one operation on module instance F; returns a snapshot (or an exception object)"""
    kind = op[0]
    if kind == "edit":
        # the caller replaces a column of one of its frames in place (new symbols)
        b, ver = op[1], op[2]
        frs[b]["x"] = env.column(f"{'abc'[b]}_x_v{ver}", len(frs[b]))
        return {"edited": (b, ver)}
    try:
        with env.running():
            if kind == "cfg":
                F.config["EVAL_UNSEEN_CATEGORIES"] = MODES[op[1]]
                return {"cfg": F.config["EVAL_UNSEEN_CATEGORIES"]}
            if kind == "build":
                dm = F.design_matrices(FORMULAS[op[1]], frs[op[2]], extra_namespace=ns)
                designs.append(dm)
                return snap_design(dm)
            dm = designs[op[1]]
            m = dm.common if kind == "evalc" else dm.group
            if m is None:
                return {"none": True}
            return snap_matrix(m.evaluate_new_data(frs[op[2]]))
    except symx.PathEnd:
        raise
    except symx.Inconclusive:
        raise
    except Exception as e:
        return {"raises": type(e).__name__}


def cases(tier):
    K = 4
    fsel = [0, 1] if tier == "quick" else [0, 1, 3, 4]
    out = []
    for mode in ([0, 1] if tier == "quick" else [0, 1, 2]):
        for first in (fsel + [4] if tier == "quick" else fsel):  # the first operation builds a design (otherwise nothing can leak)
            for fr in (0, 2):
                for second in range(12 if tier == "quick" else 40):  # index of the second operation (parallelism)
                    out.append((K, mode, first, fr, tuple(fsel), second))
    return out


def signature(case, v):
    info = v.get("info") or {}
    return {"initial_mode": MODES[case[1]], "history": info.get("history"), "what": v["label"].split(" [")[0]}


def reference(op_chain, mode, sym, env_factory):
    """snapshot of the LAST operation of op_chain executed on freshly imported modules"""
    F = fresh_formulae(sym)
    F.config["EVAL_UNSEEN_CATEGORIES"] = MODES[mode]
    env = env_factory()
    frs = frames(env)
    ns = {"shift": Shift}
    designs = []
    snap = None
    for op in op_chain:
        snap = do_op(F, op, designs, frs, ns, env)
    return snap


def harness(env, case):
    K, mode, first, first_frame, fsel, second = case
    sym = env.mode == "sym"
    c = env.c
    forced = env.model.get("_history") if not sym else None
    if not sym and forced is None:
        forced = [["build", first, first_frame], ["evalc", 0, 2 if first_frame != 2 else 0], ["build", fsel[-1], 0]][: K]  # differential validation run
    F = fresh_formulae(sym)
    F.config["EVAL_UNSEEN_CATEGORIES"] = MODES[mode]
    frs = frames(env)
    frame_snaps = [snap_frame(f) for f in frs]
    ns = {"shift": Shift}
    ns_keys = dict(ns)
    designs, results = [], []  # results: (op, op_chain for the reference, snapshot)
    history = []
    cur_mode = mode
    versions = [0, 0, 0]
    edits = []  # (position in history, op)
    for step in range(K):
        if forced is not None:
            if step >= len(forced):
                break
            op = tuple(forced[step])
        elif step == 0:
            op = ("build", first, first_frame)
        else:
            options = [("build", a, b) for a in fsel for b in ((2,) if harness.tier == "quick" else (0, 2))]
            options.append(("build", 1, 1))  # the C(k) formula on the frame that stores the ids as floats
            options += [("evalc", d, b) for d in range(len(designs)) for b in ((0, 2) if harness.tier == "quick" else (0, 1, 2))]
            options += [("evalg", d, b) for d in range(len(designs)) if designs[d].group is not None for b in (0, 2)]
            options += [("cfg", m) for m in range(len(MODES) if harness.tier != "quick" else 2) if m != cur_mode]
            options += [("edit", b, versions[b] + 1) for b in ((2,) if harness.tier == "quick" else (0, 2))]
            if step == 1:
                if second >= len(options):
                    raise symx.PathEnd()
                op = options[second]
            else:
                op = options[c.pick(len(options))]
        history.append(list(op))
        info = {"history": [list(h) for h in history], "_replay": {"_history": [list(h) for h in history]}}
        snap = do_op(F, op, designs, frs, ns, env)
        if op[0] == "cfg":
            cur_mode = op[1]
            continue
        if op[0] == "edit":
            versions[op[1]] = op[2]
            edits.append((len(history) - 1, op))
            frame_snaps[op[1]] = snap_frame(frs[op[1]])
            continue
        # the chain that defines this result on fresh modules: (config as now) + build [+ eval]
        here = len(history) - 1
        if op[0] == "build":
            chain = [e for pos, e in edits if pos < here] + [op]
        else:
            bpos, bop = next((r[4], r[0]) for r in results if r[0][0] == "build" and r[3] == op[1])
            chain = [e for pos, e in edits if pos < bpos] + [bop] + [e for pos, e in edits if bpos < pos < here] + [(op[0], 0, op[2])]
        ref = reference_cached(chain, cur_mode, sym, env)
        same_snap(env, snap, ref, "result == the same operation on freshly imported modules", info)
        results.append((op, chain, snap, len(designs) - 1 if op[0] == "build" else None, here))
        # nothing observed earlier may have changed
        for (op0, chain0, snap0, di, _pos) in results[:-1]:
            if op0[0] == "build":
                try:
                    now = snap_design(designs[di])
                except symx.PathEnd:
                    raise
                except symx.Inconclusive:
                    raise
                except Exception as e:  # noqa -- e.g. labels no longer match the columns
                    env.fail("an existing design is unchanged by later operations", dict(info, error=f"re-reading it raises {type(e).__name__}: {e}"[:200]))
                    continue
                same_snap(env, now, snap0, "an existing design is unchanged by later operations", info)
        for i, f in enumerate(frs):
            env.prove(_frame_same(snap_frame(f), frame_snaps[i]), "the caller's frames are untouched", info)
        env.prove(ns == ns_keys, "the caller's namespace is untouched", info)
    F.config["EVAL_UNSEEN_CATEGORIES"] = "error"


harness.tier = "quick"


def _frame_same(a, b):
    if a["columns"] != b["columns"] or a["dtypes"] != b["dtypes"] or a["index"] != b["index"]:
        return False
    for col in a["cells"]:
        for u, w in zip(a["cells"][col], b["cells"][col]):
            if not (u is w or (not isinstance(u, symx.Sym) and u == w)):
                return False
    return True


_REF = {}


def reference_cached(chain, mode, sym, env):
    key = (tuple(tuple(o) for o in chain), mode, sym)
    if not sym:
        return reference(chain, mode, sym, lambda: pipe.Env(model=env.model))
    if key not in _REF:
        _REF[key] = reference(chain, mode, sym, lambda: pipe.Env(c=env.c))
    return _REF[key]


SEED_FORMULAS = ["y ~ (a:b):(b:c)", "y ~ a:b:a", "y ~ c:a:c:b", "y ~ (a:b)*(b:c)", "y ~ (a + b + c)**3", "y ~ a*b*c - a:c", "y ~ (1|a:b:a) + (b:a|c)", "y ~ f(b, a=1, c=2):a", "y ~ a/b/c + c/b/a",
                 "y ~ (a + b)*(b + c)*(a + c)", "y ~ {a + b}:c:{a + b}", "y ~ 0 + a:b:c"]


def determinism_across_processes(rep):
    """model_description and design_matrices give the same terms, names, labels and numbers in every
    process: three fresh interpreters with different string-hash seeds (plain API, no symbolic part)"""
    import json as _json
    import os
    import subprocess

    prog = (
        "import json, sys, warnings\n"
        "warnings.simplefilter('ignore')\n"
        "import numpy as np, pandas as pd\n"
        "from formulae import model_description, design_matrices\n"
        "F = json.loads(sys.argv[1])\n"
        "df = pd.DataFrame({'y': [1.0, 2.5, 0.5, 4.0, 3.0, 2.0, 1.5, 0.0], 'a': list('ppqqppqq'), 'b': list('uvuvvuvu'), 'c': list('mmmmnnnn')})\n"
        "out = {}\n"
        "for f in F:\n"
        "    try:\n"
        "        m = model_description(f)\n"
        "        d = {'common': [t.name for t in m.common_terms], 'group': [t.name for t in m.group_terms]}\n"
        "        if 'f(' not in f:\n"
        "            dm = design_matrices(f, df)\n"
        "            if dm.common is not None:\n"
        "                d['labels'] = [str(c) for c in dm.common.as_dataframe().columns]\n"
        "                d['X'] = np.asarray(dm.common.design_matrix, dtype=float).tolist()\n"
        "            if dm.group is not None:\n"
        "                d['glabels'] = [l for t in dm.group.terms.values() for l in t.labels]\n"
        "                d['Z'] = np.asarray(dm.group.design_matrix, dtype=float).tolist()\n"
        "        out[f] = d\n"
        "    except Exception as e:\n"
        "        out[f] = {'exc': type(e).__name__}\n"
        "print(json.dumps(out, sort_keys=True))\n"
    )
    results = {}
    for hs in ("0", "1", "77"):
        env = dict(os.environ, PYTHONHASHSEED=hs, PYTHONPATH=os.environ.get("PYTHONPATH", ""))
        r = subprocess.run([sys.executable, "-c", prog, _json.dumps(SEED_FORMULAS)], capture_output=True, text=True, env=env, timeout=300)
        if r.returncode != 0 or not r.stdout.strip():
            rep.inconclusive.append(f"determinism run with PYTHONHASHSEED={hs} failed: {r.stderr[-200:]}")
            return
        results[hs] = _json.loads(r.stdout.strip().splitlines()[-1])
    base = results["0"]
    n = 0
    for f in SEED_FORMULAS:
        n += 1
        for hs in ("1", "77"):
            if results[hs][f] != base[f]:
                diff = [k for k in set(base[f]) | set(results[hs][f]) if base[f].get(k) != results[hs][f].get(k)]
                rep.violations.append({"label": "the result depends on the process (string-hash seed)", "signature": {"what": "the result depends on the process (string-hash seed)", "part": "determinism", "formula": f},
                                       "replay": {"formula": f, "differs_in": diff, "seed0": {k: base[f].get(k) for k in diff if k not in ("X", "Z")}, f"seed{hs}": {k: results[hs][f].get(k) for k in diff if k not in ("X", "Z")}},
                                       "reproduced": True, "detail": f"{f}: {diff} differ between PYTHONHASHSEED=0 and {hs}"})
                break
    rep.extra["determinism_formulas_x_seeds"] = n * 3


def caller_objects_untouched(rep):
    """objects passed by name through extra_namespace are left exactly as they were (plain API): level lists,
    knot arrays in any order, encoding objects, dicts"""
    import copy as _copy

    from formulae import design_matrices
    from formulae.categorical import Sum, Treatment

    rng = np.random.RandomState(3)
    df = pd.DataFrame({"y": rng.normal(size=12), "x": np.linspace(0.0, 10.0, 12)[rng.permutation(12)], "k": [3, 1, 2] * 4, "g": list("aabbccaabbcc")})
    ns = {"lv": [2, 3, 1], "kn": np.array([7.0, 2.0, 4.5]), "knl": [6.0, 3.0], "tr": Treatment(2), "sm": Sum(), "opts": {"q": 1}, "tup": (3, 1, 2)}
    before = {"lv": list(ns["lv"]), "kn": ns["kn"].copy(), "knl": list(ns["knl"]), "tr": _copy.deepcopy(ns["tr"].__dict__), "sm": _copy.deepcopy(ns["sm"].__dict__), "opts": dict(ns["opts"]), "tup": tuple(ns["tup"])}
    frame_before = df.copy(deep=True)
    n = 0
    for f in ("y ~ C(k, levels=lv)", "y ~ bs(x, knots=kn)", "y ~ bs(x, knots=knl, degree=2)", "y ~ C(k, tr) + C(g, sm)", "y ~ C(k, sm):x", "y ~ T(k, levels=tup)", "y ~ (bs(x, knots=kn)|g)"):
        try:
            dm = design_matrices(f, df, extra_namespace=ns)
            if dm.common is not None:
                dm.common.evaluate_new_data(df.iloc[:5])
            if dm.group is not None:
                dm.group.evaluate_new_data(df.iloc[:5])
        except Exception as e:  # noqa -- whether the call is accepted is not the subject here
            rep.extra.setdefault("caller_objects_refused", []).append(f"{f}: {type(e).__name__}")
        n += 1
        now = {"lv": list(ns["lv"]), "kn": ns["kn"].copy(), "knl": list(ns["knl"]), "tr": ns["tr"].__dict__, "sm": ns["sm"].__dict__, "opts": dict(ns["opts"]), "tup": tuple(ns["tup"])}
        changed = [k for k in before if (not np.array_equal(now[k], before[k]) if k == "kn" else now[k] != before[k])]
        if changed or not df.equals(frame_before) or list(df.columns) != list(frame_before.columns):
            rep.violations.append({"label": "an object of the caller passed by name was modified", "signature": {"what": "an object of the caller passed by name was modified", "part": "namespace", "formula": f, "objects": changed},
                                   "replay": {"formula": f, "changed": changed}, "reproduced": True, "detail": f"{f}: {changed or 'frame'} changed"})
            return
    rep.extra["caller_object_formulas"] = n


def later_rebinding(rep):
    """a design keeps evaluating with the bindings it was built with: the caller re-binds a local that the
    formula uses (a loop variable), replaces an entry of its extra_namespace dict, builds further designs
    from the same function (plain API)"""
    from formulae import design_matrices

    df = pd.DataFrame({"y": [1.0, 2.0, 0.5, 4.0], "x": [1.0, 2.0, 3.0, 5.0]})

    def bad(what, detail):
        rep.violations.append({"label": what, "signature": {"what": what, "part": "rebinding"}, "replay": {"detail": detail}, "reproduced": True, "detail": detail})

    def loop():
        designs = []
        for k in (1, 2, 3):
            designs.append((k, design_matrices("y ~ 0 + I(x ** k)", df)))
        return designs

    for k, dm in loop():
        got = np.asarray(dm.common.evaluate_new_data(df).design_matrix, dtype=float).reshape(-1)
        if not np.array_equal(got, df["x"].values ** k):
            bad("a later design (or a re-bound local of the caller) changed the evaluations of an existing design", f"design built with k={k} evaluates new data as {got.tolist()}")
            break
    ns = {"f": np.log, "c": 2.0}
    dm = design_matrices("y ~ 0 + f(x) + I(x * c)", df, extra_namespace=ns)
    before = np.asarray(dm.common.evaluate_new_data(df).design_matrix, dtype=float)
    ns["f"], ns["c"] = np.sqrt, 5.0
    design_matrices("y ~ 0 + f(x) + I(x * c)", df, extra_namespace=ns)
    after = np.asarray(dm.common.evaluate_new_data(df).design_matrix, dtype=float)
    if not np.array_equal(before, after):
        bad("replacing an entry of the caller's extra_namespace changed the evaluations of an existing design", f"{before.tolist()} -> {after.tolist()}")
    # an array of the caller that a call hands through unchanged, modified in place afterwards
    w = np.array([1.0, 2.0, 3.0, 4.0])
    dm = design_matrices("I(w) ~ x + {w}", df, extra_namespace={"w": w})
    r0, c0 = np.array(dm.response.design_matrix, dtype=float), np.array(dm.common.design_matrix, dtype=float)
    w *= 2
    if not (np.array_equal(r0, np.asarray(dm.response.design_matrix, dtype=float)) and np.array_equal(c0, np.asarray(dm.common.design_matrix, dtype=float))):
        bad("an in-place change of the caller's array changed the matrices of an existing design", f"response {r0.tolist()} -> {np.asarray(dm.response.design_matrix).tolist()}")
    rep.extra["rebinding_scenarios"] = 3


def run(tier, seed):
    harness.tier = tier
    rep = core.Report(ID, tier, seed)
    rep.functions = ["formulae.terms.call_resolver.LazyCall.eval (stateful_transform per call site)", "formulae.transforms.TRANSFORMS / Center / Scale / Polynomial / user-registered transform", "formulae.config.config",
                     "formulae.matrices.design_matrices, Common/GroupEffectsMatrix.evaluate_new_data (shared slices / terms)", "formulae.terms.terms/variable/call eval_new_data*"]
    cs = cases(tier)
    K = cs[0][0]
    rep.bounds = {"history length": K, "pool": {"formulas": FORMULAS if tier != "quick" else [FORMULAS[i] for i in (0, 1)] + ["(first build also) " + FORMULAS[4]], "frames": "3 frames with disjoint z3 symbols (one containing an unseen group level)", "modes": MODES},
                  "operations": "build(formula, frame) | common.evaluate_new_data(design, frame) | group.evaluate_new_data(design, frame)" + (" | config[...] = mode" if K > 3 else "") + "; the initial mode and the first build are case parameters",
                  "cases": len(cs)}
    rep.bounds["plain-API parts"] = f"determinism across three interpreter processes with different string-hash seeds on {len(SEED_FORMULAS)} formulas; caller objects passed by name (lists, arrays, encoding objects) compared before / after 7 formulas"
    rep.outside = ["histories longer than the bound; interleaving across threads/processes", "state outside formulae's own modules (pandas / numpy global options)"]
    rep.stubs = pipe.STUBS + ["'fresh process-state' is realised by deleting formulae* from sys.modules and importing it again (new module objects, registries, config singleton, classes), not by a new OS process"]
    rep.assumptions = []
    rep.rule = "one path = one history; non-trivial = histories with at least two operations touching the same design or the same transform class"
    pipe.run_cases(rep, "vf.props.c07", "harness", cs)
    determinism_across_processes(rep)
    caller_objects_untouched(rep)
    later_rebinding(rep)
    rep.nontrivial = int(rep.stats.get("paths", 0))
    return core.finish(rep)
