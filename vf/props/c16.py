"""C16 -- built-in helpers (binary, offset, prop, I) and aliases keep their pointwise meaning.

Numeric inputs are z3 reals / integers: binary(x, s) on a symbolic column forks on every
x_i == s (the solver decides which outcomes are feasible) and the result is compared with
If(x_i == s, 1, 0); offsets and trials at prediction time are compared with the NEW frame's
symbols; alias pairs are two real runs compared as z3 terms.
"""
import numpy as np
import pandas as pd
import z3

from vf import core, gen, pipe, symx

ID = "C16"


def cases(tier):
    out = []
    n = 3 if tier == "quick" else 4
    out += [("binary_num", n, 2), ("binary_num", n, 0), ("binary_num", n, -1.5), ("binary_num_default", n, None)]
    out += [("binary_cat", fv, s) for fv in ("str", "cat", "ord") for s in ("a", "b", None, "zz")]
    out += [("binary_cat_g", "str", s) for s in ("t", "u", None)]
    out += [("binary_cat_declared", "cat", s) for s in ("Aaa", "a", None)]  # 'Aaa' is a declared category that no row has
    out += [("offset", form, rhs) for form in ("offset(z)", "offset(3)", "offset(2.5)", "offset(2 * z)", "offset(z + x)", "offset(-3)", "offset(2 * 3)", "offset(kk)", "offset(0)") for rhs in ("x", "x + f")]
    out += [("prop_predict", form, None) for form in ("prop(s, n)", "prop(s, 9)", "p(s, n)", "proportion(s, n)", "prop(s, 3 * 3)", "prop(s, kk9)", "prop(s, trials=n)", "prop(successes=s, trials=n)", "prop(s, n * 1)", "prop(s, +n)")]
    out += [("prop_validate", vals, None) for vals in ("int_ok", "float_int_ok", "noninteger_s", "noninteger_n", "s_gt_n", "s_gt_const", "trials_str")]
    out += [("identity", e, None) for e in ("x", "x * z", "x + 2", "(x - z) * x", "-x")]
    al = [("B(f, 'a')", "binary(f, 'a')"), ("B(x, 2)", "binary(x, 2)"), ("standardize(x)", "scale(x)"), ("T(g, 't')", "C(g, Treatment('t'))"), ("T(g)", "C(g, Treatment)"),
          ("S(g, 't')", "C(g, Sum('t'))"), ("S(g)", "C(g, Sum)"), ("T(k, 2)", "C(k, Treatment(2))"), ("S(k, 1)", "C(k, Sum(1))"), ("T(g, levels=gl)", "C(g, Treatment, levels=gl)")]
    for a, b in al:
        for ctx in ("y ~ {}", "y ~ 0 + {}", "y ~ x:{}", "y ~ ({}|h)" if tier != "quick" else None):
            if ctx is None or (ctx.startswith("y ~ (") and a.startswith(("B(", "standardize"))):
                continue
            out.append(("alias", a, (b, ctx, "str")))
            if "(g" in a and "levels=" not in a:
                out.append(("alias", a, (b, ctx, "ord")))  # ordered categorical column: declared (non-sorted) level order
    out += [("alias_resp", a, b) for a, b in (("p(s, n)", "prop(s, n)"), ("proportion(s, n)", "prop(s, n)"), ("p(s, 9)", "proportion(s, 9)"))]
    return out


def signature(case, v):
    info = v.get("info") or {}
    sig = {"kind": case[0], "a": case[1], "b": repr(case[2]), "what": v["label"].split(" [")[0]}
    if isinstance(info, dict) and "exc" in info:
        sig["exc"], sig["site"] = info["exc"], info.get("site")
    return sig


def zeq(a, b):
    return symx.to_z3(a) == symx.to_z3(b) if not (isinstance(a, (int, float)) and isinstance(b, (int, float))) else z3.BoolVal(a == b)


def harness(env, case):
    from formulae import design_matrices

    kind, a, b = case
    sym = env.mode == "sym"

    def build(formula, df, **kw):
        kw.setdefault("extra_namespace", {"kk": 4, "kk9": 9})
        with env.running():
            return design_matrices(formula, df, **kw)

    if kind in ("binary_num", "binary_num_default"):
        n = a
        x = env.column("x", n)
        y = env.column("y", n)
        df = env.frame({"y": y, "x": x})
        formula = "y ~ binary(x)" if b is None else f"y ~ binary(x, {b})"
        try:
            dm = build(formula, df)
            raised = None
        except symx.PathEnd:
            raise
        except symx.Inconclusive:
            raise
        except Exception as e:
            dm, raised = None, e
        if b is None:
            # success = the smallest value
            if sym:
                m = x[0].e
                for v in x[1:]:
                    m = z3.If(v.e < m, v.e, m)
                s = symx.Sym(m)
            else:
                s = float(np.min(x))
        else:
            s = b
        if raised is not None:
            if isinstance(raised, ValueError):
                none_eq = z3.And([z3.Not(zeq(v, s)) for v in x]) if sym else all(v != s for v in x)
                env.prove(none_eq, "binary refuses a success value only if it never occurs")
            else:
                env.fail("binary raises an unexpected exception", {"exc": type(raised).__name__, "site": core.repo_site(raised)})
            return
        col = np.asarray(dm.common["binary(x)" if b is None else f"binary(x, {b})"]).reshape(-1)
        if sym:
            want = [z3.If(zeq(v, s), 1, 0) for v in x]
            env.prove(z3.And([symx.to_z3(c) == w for c, w in zip(col, want)]), "binary(x, s) is 1 exactly where x equals s")
            env.prove(z3.Or([zeq(v, s) for v in x]), "binary accepted: s occurs in training")
        else:
            env.prove(all(float(c) == (1.0 if v == s else 0.0) for c, v in zip(col, x)), "binary(x, s) is 1 exactly where x equals s")
        return
    if kind in ("binary_cat", "binary_cat_g", "binary_cat_declared"):
        var = "g" if kind == "binary_cat_g" else "f"
        df, rows = gen.build_frame(env, ["y", "x", var], a, "scramble")
        if kind == "binary_cat_declared":
            df[var] = pd.Categorical(list(df[var]), categories=["Aaa"] + sorted(gen.LEVELS[var]))
        formula = f"y ~ x + binary({var})" if b is None else f"y ~ x + binary({var}, '{b}')"
        name = f"binary({var})" if b is None else f"binary({var}, '{b}')"
        s = sorted(gen.LEVELS[var])[0] if b is None else b
        try:
            dm = build(formula, df)
        except symx.PathEnd:
            raise
        except ValueError as e:
            env.prove(all(r[var] != s for r in rows), "binary refuses a success value only if it never occurs")
            return
        except Exception as e:
            env.fail("binary raises an unexpected exception", {"exc": type(e).__name__, "site": core.repo_site(e)})
            return
        col = np.asarray(dm.common[name]).reshape(-1)
        env.prove_equal(col, [1 if r[var] == s else 0 for r in rows], "binary(v, s) is 1 exactly where v equals s (smallest level if omitted)")
        env.prove(any(r[var] == s for r in rows), "binary accepted: s occurs in training")
        return
    if kind == "offset":
        df, rows = gen.build_frame(env, gen.used_vars("y ~ z + x + " + b), "str", "sorted", min_rows=4)
        formula = f"y ~ {b} + {a}"
        try:
            dm = build(formula, df)
        except symx.PathEnd:
            raise
        except Exception as e:
            env.fail("offset design cannot be built", {"exc": type(e).__name__, "site": core.repo_site(e), "msg": str(e)[:120]})
            return

        def value(frame):
            z, x = frame["z"].values, frame["x"].values
            n = len(frame)
            const = {"offset(3)": 3, "offset(2.5)": 2.5, "offset(-3)": -3, "offset(2 * 3)": 6, "offset(kk)": 4, "offset(0)": 0}  # kk = 4 in the caller's namespace
            if a in const:
                return np.array([const[a]] * n, dtype=object)
            return {"offset(z)": z, "offset(2 * z)": 2 * z, "offset(z + x)": z + x}[a]

        env.prove_equal(np.asarray(dm.common[a]).reshape(-1), value(df), "offset(v) contributes v unchanged (constant broadcast)")
        # prediction: a new frame with fresh symbols
        nd, _ = gen.build_frame(env, gen.used_vars("y ~ z + x + " + b), "str", "reversed", min_rows=4, prefix="new_")
        nd = nd.iloc[:3]
        try:
            with env.running():
                new = dm.common.evaluate_new_data(nd)
        except symx.PathEnd:
            raise
        except Exception as e:
            env.fail("offset cannot be evaluated on a new frame", {"exc": type(e).__name__, "site": core.repo_site(e), "msg": str(e)[:120]})
            return
        sl = dm.common.slices[a]
        env.prove_equal(np.asarray(new.design_matrix)[:, sl].reshape(-1), value(nd), "offset is recomputed from the new frame at prediction")
        return
    if kind == "prop_predict":
        n = 3
        s = env.column("s", n, integer=True)
        t = env.column("n", n, integer=True)
        x = env.column("x", n)
        df = env.frame({"s": s, "n": t, "x": x})
        if sym:
            df["s"] = pd.Series(s, dtype=object)
            df["n"] = pd.Series(t, dtype=object)
        try:
            dm = build(f"{a} ~ x", df)
        except symx.PathEnd:
            raise
        except ValueError:
            return  # refusal branches are covered by C15 / prop_validate
        for rows_new in (2, 1):
            t2 = env.column(f"n2_{rows_new}", rows_new, integer=True)
            s2 = env.column(f"s2_{rows_new}", rows_new, integer=True)
            nd = env.frame({"s": s2, "n": t2, "x": env.column(f"x2_{rows_new}", rows_new)})
            if sym:
                nd["s"] = pd.Series(s2, dtype=object)
                nd["n"] = pd.Series(t2, dtype=object)
            try:
                with env.running():
                    out = dm.response.evaluate_new_data(nd)
            except symx.PathEnd:
                raise
            except Exception as e:
                env.fail("prop cannot be evaluated on a new frame", {"exc": type(e).__name__, "site": core.repo_site(e), "msg": str(e)[:120]})
                return
            want = np.array([9] * rows_new, dtype=object) if ("9" in a or "3 * 3" in a) else t2
            env.prove(np.asarray(out).ndim >= 1 and np.asarray(out).shape[0] == rows_new, "prop at prediction: one entry per row of the new frame")
            env.prove_equal(np.asarray(out).reshape(-1), want, "prop reports the trials of the new frame at prediction")
        return
    if kind == "prop_validate":
        table = {
            "int_ok": ([1, 2, 0], [3, 2, 5], "prop(s, n)", False), "float_int_ok": ([1.0, 2.0, 0.0], [3.0, 2.0, 5.0], "prop(s, n)", False),
            "noninteger_s": ([1.5, 2, 0], [3, 2, 5], "prop(s, n)", True), "noninteger_n": ([1, 2, 0], [3, 2.5, 5], "prop(s, n)", True),
            "s_gt_n": ([1, 3, 0], [3, 2, 5], "prop(s, n)", True), "s_gt_const": ([1, 10, 0], [3, 2, 5], "prop(s, 9)", True), "trials_str": ([1, 2, 0], [3, 2, 5], "prop(s, 'a')", True),
        }
        sv, nv, form, must_raise = table[a]
        df = pd.DataFrame({"s": sv, "n": nv, "x": [0.5, 1.5, 2.5]})
        try:
            dm = build(f"{form} ~ x", df)
            ok = True
        except symx.PathEnd:
            raise
        except ValueError:
            ok = False
        except Exception as e:
            env.fail("prop raises an unexpected exception type", {"exc": type(e).__name__, "site": core.repo_site(e)})
            return
        env.prove(ok != must_raise, "prop validates integer successes not exceeding trials")
        return
    if kind == "identity":
        df, rows = gen.build_frame(env, ["y", "x", "z"], "str", "sorted", min_rows=3)
        dm = build(f"y ~ I({a})", df)
        dm2 = build(f"y ~ {{{a}}}", df)
        x, z = df["x"].values, df["z"].values
        want = {"x": x, "x * z": x * z, "x + 2": x + 2, "(x - z) * x": (x - z) * x, "-x": -x}[a]
        env.prove_equal(np.asarray(dm.common.design_matrix)[:, 1], want, "I(e) is e")
        env.prove_equal(np.asarray(dm2.common.design_matrix), np.asarray(dm.common.design_matrix), "{e} is I(e)")
        env.prove(list(dm2.common.terms) == list(dm.common.terms), "{e} and I(e) have the same term name")
        return
    if kind == "alias":
        other, ctxf, fv = b
        f1, f2 = ctxf.format(a), ctxf.format(other)
        df, rows = gen.build_frame(env, gen.used_vars(f1 + " " + f2), fv, "scramble", min_rows=4)
        # names that collide with the helpers are bound in the caller's namespace: built-ins must still win
        ns = {"gl": ["u", "s", "t"], "B": 3, "T": 300.0, "S": 12, "p": 0.05, "standardize": (lambda v: v), "binary": None, "C": "c", "I": 1}
        try:
            d1 = build(f1, df, extra_namespace=ns)
            r1 = None
        except symx.PathEnd:
            raise
        except symx.Inconclusive:
            raise
        except Exception as e:
            d1, r1 = None, e
        try:
            d2 = build(f2, df, extra_namespace=ns)
            r2 = None
        except symx.PathEnd:
            raise
        except symx.Inconclusive:
            raise
        except Exception as e:
            d2, r2 = None, e
        if r1 is not None or r2 is not None:
            env.prove(r1 is not None and r2 is not None and type(r1) is type(r2), "aliases fail together", {"exc": type(r1 or r2).__name__, "site": core.repo_site(r1 or r2)})
            return
        for k in ("common", "group"):
            m1, m2 = getattr(d1, k), getattr(d2, k)
            env.prove((m1 is None) == (m2 is None), f"alias: same matrices present ({k})")
            if m1 is None or m2 is None:
                continue
            env.prove_equal(np.asarray(m1.design_matrix), np.asarray(m2.design_matrix), f"alias: {k} matrices are equal")
            l1 = [str(c) for c in m1.as_dataframe().columns] if k == "common" else [l for t in m1.terms.values() for l in t.labels]
            l2 = [str(c) for c in m2.as_dataframe().columns] if k == "common" else [l for t in m2.terms.values() for l in t.labels]
            env.prove([l.replace(a, "@") for l in l1] == [l.replace(other, "@") for l in l2], f"alias: labels equal modulo the callee name ({k})")
        # and at prediction time
        nd = df.iloc[[1, 0]]
        outs = []
        for d in (d1, d2):
            try:
                with env.running():
                    outs.append(d.common.evaluate_new_data(nd) if d.common is not None else None)
            except symx.PathEnd:
                raise
            except symx.Inconclusive:
                raise
            except Exception as e:
                outs.append(e)
        n1, n2 = outs
        if isinstance(n1, Exception) or isinstance(n2, Exception):
            env.prove(isinstance(n1, Exception) and isinstance(n2, Exception) and type(n1) is type(n2), "aliases fail together at prediction time")
        elif n1 is not None and n2 is not None:
            env.prove_equal(np.asarray(n1.design_matrix), np.asarray(n2.design_matrix), "alias: equal at prediction time")
        return
    if kind == "alias_resp":
        n = 3
        s = env.column("s", n, integer=True)
        t = env.column("n", n, integer=True)
        df = env.frame({"s": s, "n": t, "x": env.column("x", n)})
        if sym:
            df["s"] = pd.Series(s, dtype=object)
            df["n"] = pd.Series(t, dtype=object)
        res = []
        for f in (a, b):
            try:
                res.append(build(f"{f} ~ x", df))
            except symx.PathEnd:
                raise
            except ValueError as e:
                res.append(e)
        if isinstance(res[0], Exception) or isinstance(res[1], Exception):
            env.prove(isinstance(res[0], Exception) and isinstance(res[1], Exception), "aliases fail together")
            return
        env.prove_equal(np.asarray(res[0].response.design_matrix), np.asarray(res[1].response.design_matrix), "alias: response matrices are equal")
        env.prove(res[0].response.kind == res[1].response.kind, "alias: same response kind")
        return
    raise ValueError(kind)


def run(tier, seed):
    rep = core.Report(ID, tier, seed)
    rep.functions = ["formulae.transforms.binary / proportion / Proportion / offset / Offset / I / C / T / S / Scale and the TRANSFORMS table",
                     "formulae.terms.call.Call.eval_offset/eval_proportion/eval_new_data_offset/eval_new_data_proportion/eval_categorical_box", "formulae.matrices.ResponseMatrix.evaluate_new_data"]
    cs = cases(tier)
    rep.bounds = {"cases": len(cs), "binary on a numeric column": f"{3 if tier == 'quick' else 4} symbolic rows (every equality pattern x_i == s is a solver-decided path), s in 2, 0, -1.5, omitted", "kinds": sorted({c[0] for c in cs})}
    rep.outside = ["integrality of symbolic successes is not expressible (np.mod on a real term is uninterpreted): integrality is checked on concrete tables", "floats"]
    rep.stubs = pipe.STUBS
    rep.assumptions = ["std != 0 for standardize/scale"]
    rep.rule = "one case = one helper/alias scenario; binary cases fork per row; non-trivial = all"
    pipe.run_cases(rep, "vf.props.c16", "harness", cs)
    rep.nontrivial = rep.cases
    return core.finish(rep)
