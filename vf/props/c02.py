"""C02 -- term algebra = Wilkinson-Rogers / lme4 set semantics.

The real ``Resolver`` and every operator overload of Intercept / NegatedIntercept / Term /
GroupSpecificTerm / Response / Model are executed on formula ASTs whose *variable names are
solver variables* (``SymName``): every ``==`` the implementation performs between two factor
names is a solver fork, so aliasing (repeated factors, duplicate terms) is decided by z3 and one
path stands for every assignment of names with that aliasing pattern.  Formula shapes (operator
trees from a grammar of the documented language) are decision variables explored exhaustively
within the bound.  The reference algebra below (sets of factor sets) runs on the same symbolic
names; the two results are compared as sets.
"""
import itertools
import os

import z3

from vf import core, symx

ID = "C02"
NAMES = ["a", "b", "c", "d"]
CALLS = ["f(x)", "f(x, 2)", "f(x, 3)", "g(x, k='s')", "g(x, k='t')"]
CALLSPEC = [("f", None, None), ("f", 2, None), ("f", 3, None), ("g", None, "s"), ("g", None, "t")]


class SymName(str):
    """a str (so ':'.join works) whose identity is a solver variable"""

    kind = None  # SymKind

    def __eq__(self, o):
        if isinstance(o, SymName):
            if o is self:
                return True
            return self.kind == o.kind
        if isinstance(o, str):
            return self.kind == o
        return False

    def __ne__(self, o):
        r = self.__eq__(o)
        return ~r if isinstance(r, symx.SymB) else not r

    def __hash__(self):
        return 0


def mk_name(c, i):
    s = SymName(f"<v{i}>")
    s.kind = symx.SymKind(f"v{i}", NAMES, c)
    return s


# ---------------------------------------------------------------------------------------------
# shapes: generated from the documented language
# ---------------------------------------------------------------------------------------------
BIN = ["+", "-", ":", "*", "/"]


def t_shapes(nleaves, allow_pow=True):
    """term-expression shapes with exactly nleaves leaves.  ('L',) leaf, ('B', op, l, r),
    ('P', sub, n)"""
    if nleaves == 1:
        yield ("L",)
        return
    for k in range(1, nleaves):
        for l in t_shapes(k, allow_pow):
            for r in t_shapes(nleaves - k, allow_pow):
                for op in BIN:
                    yield ("B", op, l, r)
    if allow_pow and nleaves >= 2:
        for sub in t_shapes(nleaves, False):
            if sub[0] == "B" and sub[1] in "+-":
                for n in (1, 2, 3):
                    yield ("P", sub, n)


def count_leaves(sh):
    if sh[0] == "L":
        return 1
    if sh[0] == "B":
        return count_leaves(sh[2]) + count_leaves(sh[3])
    if sh[0] == "P":
        return count_leaves(sh[1])
    raise ValueError(sh)


LITS = [("+", 1), ("-", 1), ("+", 0), ("+", -1)]  # additive literal items: + 1, - 1, + 0, + -1


def formulas(tier):
    """yield formula descriptions: dict(resp=bool, items=[...]) where an item is
    ('lit', op, v) | ('T', op, shape) | ('G', op, eitems, gshape); eitems like items without G"""
    if tier == "quick":
        maxT, maxE, maxG, maxitems = 3, 2, 2, 2
    else:
        maxT, maxE, maxG, maxitems = 4, 2, 2, 3
    tsh = {n: list(t_shapes(n)) for n in range(1, maxT + 1)}
    # 1. single T item (all sizes), with and without response
    for n in range(1, maxT + 1):
        for sh in tsh[n]:
            yield {"resp": True, "items": [("T", "+", sh)]}
    # 1b. targeted four-leaf shapes: a sum / product minus a parenthesised sum (Model - Model)
    L = ("L",)
    for left in (("B", "+", L, L), ("B", "*", L, L)):
        for right in (("B", "+", L, L), ("B", ":", L, L)):
            for op in ("-", "+", "*", ":", "/"):
                yield {"resp": True, "items": [("T", "+", ("B", op, left, right))]}
    yield {"resp": True, "items": [("T", "+", ("B", "+", L, L)), ("T", "+", L), ("T", "-", ("B", "+", L, L))]}
    # 1c. one operator applied to two operands in normal form (a sum of interactions): the
    # inductive-step view of the algebra -- every model is such a sum, so together with the
    # obligation that the result is again duplicate-free this covers operands of any history
    def inter_(k):
        t = L
        for _ in range(k - 1):
            t = ("B", ":", t, L)
        return t

    def nf(profile):
        t = inter_(profile[0])
        for k in profile[1:]:
            t = ("B", "+", t, inter_(k))
        return t

    profiles = {1: [(1,)], 2: [(2,), (1, 1)], 3: [(3,), (1, 2), (2, 1), (1, 1, 1)]}
    if tier == "quick":
        nfpairs = [((1, 2), (1, 1)), ((1, 1), (2, 1)), ((1, 1, 1), (1, 1))]
    else:
        nfpairs = [(p, q) for a in (2, 3) for b in (2, 3) if a + b >= 5 for p in profiles[a] for q in profiles[b]]
    for p, q in nfpairs:
        for op in BIN:
            yield {"resp": True, "items": [("T", "+", ("B", op, nf(p), nf(q)))]}
    if tier != "quick":
        for p in [(1, 1, 1, 1), (1, 1, 2), (2, 1, 1), (1, 2, 2), (2, 2, 1)]:
            for n in (2, 3):
                yield {"resp": True, "items": [("T", "+", ("P", nf(p), n))]}
    # 2. chains of small items with literals
    small = [("T", op, sh) for op in "+-" for n in (1, 2) for sh in tsh[n] if n == 1 or sh[0] == "B" and sh[1] in ":*"]
    lits = [("lit", op, v) for op, v in LITS]
    for k in range(2, maxitems + 1):
        for combo in itertools.product(small + lits, repeat=k):
            if sum(1 for it in combo if it[0] == "T") == 0:
                continue
            if combo[0][1] == "-":
                continue
            yield {"resp": False, "items": list(combo)}
    # 3. group terms: effect chain x grouping expression, plus an optional extra item
    eatoms = [("T", "+", ("L",))] + ([("T", "+", sh) for sh in tsh[2] if sh[0] == "B" and sh[1] in ":*+"] if maxE >= 2 else [])
    echains = []
    for e in eatoms:
        echains.append([e])
        for lit in lits:
            if lit[1] == "+":
                echains.append([lit, e])
            echains.append([e, lit])
    echains.append([("lit", "+", 1)])
    # two literals: the last one wins (as at the top level)
    one = ("T", "+", ("L",))
    echains += [[("lit", "+", 1), one, ("lit", "+", 0)], [("lit", "+", 1), one, ("lit", "-", 1)], [one, ("lit", "+", 0), ("lit", "+", 1)], [("lit", "+", 0), one, ("lit", "+", 1)]]
    if tier != "quick":
        for e1 in eatoms[:1]:
            for e2 in eatoms[:1]:
                for lit in lits:
                    if lit[1] == "+":
                        echains.append([lit, e1, ("T", "+", ("L",))])
                    echains.append([e1, ("T", "+", ("L",)), lit])
    gshapes = [("L",)] + [sh for sh in tsh[2] if sh[0] == "B" and sh[1] in ":+/"]
    extras = [None, ("T", "+", ("L",)), ("lit", "+", 0), "G-", "G+"]
    for ech in echains:
        for g in gshapes:
            for ex in extras:
                items = [("G", "+", ech, g)]
                if ex == "G-":
                    items.append(("G", "-", [("lit", "+", 1)], ("L",)))
                elif ex == "G+":
                    items.append(("G", "+", [("T", "+", ("L",))], ("L",)))
                elif ex is not None:
                    items = [ex] + items if ex[0] == "T" else items + [ex]
                yield {"resp": True, "items": items}


# ---------------------------------------------------------------------------------------------
# building the AST the parser would build for the fully parenthesised rendering
# ---------------------------------------------------------------------------------------------
class Builder:
    def __init__(self, c, calls):
        from formulae import expr as E
        from formulae.token import Token

        self.E, self.Token = E, Token
        self.c = c
        self.leaves = []  # ('var', SymName) | ('call', text)
        self.calls = calls  # indices into CALLS available to this formula
        self.text = []

    OPK = {"+": "PLUS", "-": "MINUS", ":": "COLON", "*": "STAR", "/": "SLASH", "|": "PIPE", "**": "STAR_STAR", "~": "TILDE"}

    def op(self, sym):
        return self.Token(self.OPK[sym], sym)

    def leaf(self):
        """decision: variable with symbolic name, or one of the call atoms"""
        E, Token = self.E, self.Token
        k = self.c.pick(1 + len(self.calls))
        if k > 0:
            k = self.calls[k - 1] + 1
        i = len(self.leaves)
        if k == 0:
            nm = mk_name(self.c, i)
            self.leaves.append(("var", nm))
            return E.Variable(Token("IDENTIFIER", nm)), ("atom", nm), f"<v{i}>"
        text = CALLS[k - 1]
        self.leaves.append(("call", text))
        x = E.Variable(Token("IDENTIFIER", "x"))
        cal, pos, kw = CALLSPEC[k - 1]
        args = [x]
        if pos is not None:
            args.append(E.Literal(pos))
        if kw is not None:
            args.append(E.Assign(E.Variable(Token("IDENTIFIER", "k")), E.Literal(kw, lexeme=f"'{kw}'")))
        callee = E.Variable(Token("IDENTIFIER", cal))
        return E.Call(callee, args), ("atom", text), text

    def lit(self, v):
        E = self.E
        if v == -1:
            return E.Unary(self.op("-"), E.Literal(1)), "-1"
        return E.Literal(v), str(v)

    def texpr(self, sh):
        """returns (ast, ref_tree, text)"""
        E = self.E
        if sh[0] == "L":
            return self.leaf()
        if sh[0] == "B":
            l, lr, lt = self.texpr(sh[2])
            r, rr, rt = self.texpr(sh[3])
            wrapl = E.Grouping(l) if sh[2][0] != "L" else l
            wrapr = E.Grouping(r) if sh[3][0] != "L" else r
            lt = f"({lt})" if sh[2][0] != "L" else lt
            rt = f"({rt})" if sh[3][0] != "L" else rt
            return E.Binary(wrapl, self.op(sh[1]), wrapr), ("bin", sh[1], lr, rr), f"{lt} {sh[1]} {rt}"
        if sh[0] == "P":
            s, sr, st = self.texpr(sh[1])
            return E.Binary(E.Grouping(s), self.op("**"), E.Literal(sh[2])), ("pow", sr, sh[2]), f"({st}) ** {sh[2]}"
        raise ValueError(sh)

    def chain(self, items, start_ast, start_text):
        """left-assoc additive chain.  returns ast, ref item list, text"""
        E = self.E
        ast, text = start_ast, start_text
        ref = []
        for it in items:
            if it[0] == "lit":
                r, rt = self.lit(it[2])
                ref.append(("lit", it[1], it[2]))
            elif it[0] == "T":
                r, rr, rt = self.texpr(it[2])
                if it[2][0] != "L":
                    r, rt = E.Grouping(r), f"({rt})"
                ref.append(("T", it[1], rr))
            else:
                e_ast, e_ref, e_text = self.chain(it[2], None, None)
                g, gr, gt = self.texpr(it[3])
                r = E.Grouping(E.Binary(e_ast, self.op("|"), g))
                rt = f"({e_text} | {gt})"
                ref.append(("G", it[1], e_ref, gr))
            if ast is None:
                if it[1] == "-":
                    raise ValueError("chain cannot start with '-'")
                ast, text = r, rt
            else:
                ast = E.Binary(ast, self.op(it[1]), r)
                text = f"{text} {it[1]} {rt}"
        return ast, ref, text


# ---------------------------------------------------------------------------------------------
# reference algebra on (possibly symbolic) atoms
# ---------------------------------------------------------------------------------------------
INT = ("INT",)


def same_atom(a, b):
    if a is b:
        return True
    sa, sb = isinstance(a, SymName), isinstance(b, SymName)
    if sa and sb:
        return bool(a == b)
    if sa or sb:
        return False
    return a == b


def atom_in(a, term):
    for b in term:
        if same_atom(a, b):
            return True
    return False


def same_term(t, u):
    if t is INT or u is INT:
        return t is u
    for a in t:
        if not atom_in(a, u):
            return False
    for b in u:
        if not atom_in(b, t):
            return False
    return True


def term_in(t, terms):
    for u in terms:
        if same_term(t, u):
            return True
    return False


def union(ts, us):
    out = list(ts)
    for u in us:
        if not term_in(u, out):
            out.append(u)
    return out


def diff(ts, us):
    return [t for t in ts if not term_in(t, us)]


def inter(t, u):
    out = list(t)
    for b in u:
        if not atom_in(b, out):
            out.append(b)
    return out


def dedupe(ts):
    return union([], ts)


def ref_T(tree):
    k = tree[0]
    if k == "atom":
        return [[tree[1]]]
    if k == "bin":
        op = tree[1]
        A, B = ref_T(tree[2]), ref_T(tree[3])
        if op == "+":
            return union(A, B)
        if op == "-":
            return diff(A, B)
        if op == ":":
            return dedupe([inter(a, b) for a in A for b in B])
        if op == "*":
            return union(union(A, B), dedupe([inter(a, b) for a in A for b in B]))
        if op == "/":
            allf = []
            for a in A:
                allf = inter(allf, a)
            return union(A, dedupe([inter(allf, b) for b in B]))
    if k == "pow":
        A = ref_T(tree[1])
        out = list(A)
        for r in range(2, tree[2] + 1):
            for combo in itertools.combinations(A, r):
                t = []
                for x in combo:
                    t = inter(t, x)
                out = union(out, [t])
        return out
    raise ValueError(tree)


def ref_chain(ref_items, implicit_intercept):
    """returns (has_intercept, terms, groups)"""
    has_int = implicit_intercept
    terms, groups = [], []
    for it in ref_items:
        if it[0] == "lit":
            op, v = it[1], it[2]
            adds = (v == 1) if op == "+" else (v != 1)
            has_int = adds
        elif it[0] == "T":
            ts = ref_T(it[2])
            terms = union(terms, ts) if it[1] == "+" else diff(terms, ts)
        else:
            e_int, e_terms, _ = ref_chain(it[2], True)
            effs = ([INT] if e_int else []) + e_terms
            gs = ref_T(it[3])
            new = [(e, g) for e in effs for g in gs]
            if it[1] == "+":
                for p in new:
                    if not any(same_term(p[0], q[0]) and same_term(p[1], q[1]) for q in groups):
                        groups.append(p)
            else:
                groups = [q for q in groups if not any(same_term(p[0], q[0]) and same_term(p[1], q[1]) for p in new)]
    return has_int, terms, groups


# ---------------------------------------------------------------------------------------------
# harness
# ---------------------------------------------------------------------------------------------
def real_terms(model):
    from formulae.terms.terms import Intercept, Term

    def conv(t):
        if isinstance(t, Intercept):
            return INT
        assert isinstance(t, Term), type(t)
        return [c.name for c in t.components]

    common = [conv(t) for t in model.common_terms]
    groups = [(conv(g.expr), conv(g.factor)) for g in model.group_terms]
    resp = None
    if model.response is not None:
        resp = [c.name for c in model.response.term.components]
    return resp, common, groups


def describe(model):
    try:
        return {"common": [t.name for t in model.common_terms], "group": [t.name for t in model.group_terms]}
    except Exception as e:  # noqa
        return repr(e)


def n_leaves(fdesc):
    def items(its):
        n = 0
        for it in its:
            if it[0] == "T":
                n += count_leaves(it[2])
            elif it[0] == "G":
                n += items(it[2]) + count_leaves(it[3])
        return n

    return items(fdesc["items"])


def callset(fdesc, tier):
    n = n_leaves(fdesc)
    if tier == "quick":
        return [0, 1, 2, 3, 4] if n <= 2 else ([1, 3, 4] if n == 3 else [3])
    return [0, 1, 2, 3, 4] if n <= 3 else ([1, 3, 4] if n == 4 else [3])


def harness(c, fdesc, calls):
    import sys as _sys

    import formulae  # noqa

    MD = _sys.modules["formulae.model_description"]
    from formulae import expr as E
    from formulae.token import Token

    b = Builder(c, calls)
    one = E.Literal(1)
    ast, ref_items, text = b.chain(fdesc["items"], one, "")
    assert text.startswith(" + "), text
    text = text[3:]  # the implicit '1 +' is not written
    if fdesc["resp"]:
        ast = E.Binary(E.Variable(Token("IDENTIFIER", "y")), b.op("~"), ast)
        text = "y ~ " + text

    # run the real model_description with scanner/parser replaced by the prepared AST
    class _P:
        def __init__(self, toks):
            pass

        def parse(self):
            return ast

    class _S:
        def __init__(self, s):
            pass

        def scan(self):
            return []

    oldS, oldP = MD.Scanner, MD.Parser
    MD.Scanner, MD.Parser = _S, _P
    c.reach("formula")
    try:
        try:
            model = MD.model_description(text)
        finally:
            MD.Scanner, MD.Parser = oldS, oldP
    except symx.PathEnd:
        raise
    except Exception as e:  # noqa
        names = realise_names(b)
        c.stats.obligations += 1
        c.stats.violated += 1
        c.violations.append({"label": "in-language formula raises", "info": {"formula": render(text, names), "template": text, "exc": type(e).__name__, "site": core.repo_site(e), "msg": str(e)[:200]}, "model": {}})
        return
    # printing a model must not change it (repr is what a user sees in a session)
    try:
        str(model)
        repr(model)
    except symx.PathEnd:
        raise
    except Exception:  # noqa -- the string form itself is not part of C02
        pass
    # term identity: equal terms must hash equal (sets / dict keys of terms are used by callers)
    from formulae.terms.terms import Term as _Term

    for t in model.common_terms:
        if isinstance(t, _Term) and len(t.components) == 2:
            twin = _Term(*reversed(t.components))
            if twin == t and hash(twin) != hash(t):
                names = realise_names(b)
                c.stats.obligations += 1
                c.stats.violated += 1
                c.violations.append({"label": "expansion differs: equal terms hash differently", "info": {"formula": render(text, names), "template": text, "term": t.name}, "model": {}})
                return
    has_int, terms, groups = ref_chain(ref_items, True)
    want_common = ([INT] if has_int else []) + terms
    try:
        resp, common, rgroups = real_terms(model)
    except symx.PathEnd:
        raise
    except Exception as e:  # noqa -- e.g. a foreign object in the term lists
        names = realise_names(b)
        c.stats.obligations += 1
        c.stats.violated += 1
        c.violations.append({"label": "expansion differs: the returned model cannot be read (after it was printed)", "info": {"formula": render(text, names), "template": text, "printed": True, "error": f"{type(e).__name__}: {e}"[:120]}, "model": {}})
        return
    ok = True
    why = None
    for t in common:
        if not term_in(t, want_common):
            ok, why = False, "extra common term"
            break
    if ok:
        for t in want_common:
            if not term_in(t, common):
                ok, why = False, "missing common term"
                break
    if ok:
        # duplicate-free
        for i, t in enumerate(common):
            if term_in(t, common[:i]):
                ok, why = False, "duplicate common term"
                break
    if ok:
        # repeated factors are collapsed: no factor occurs twice inside one term
        for t in common + [p[0] for p in rgroups] + [p[1] for p in rgroups]:
            if t is not INT and any(same_atom(t[i], t[j]) for i in range(len(t)) for j in range(i)):
                ok, why = False, "a factor is repeated inside a term"
                break
    if ok:
        for p in rgroups:
            if not any(same_term(p[0], q[0]) and same_term(p[1], q[1]) for q in groups):
                ok, why = False, "extra group term"
                break
    if ok:
        for q in groups:
            if not any(same_term(p[0], q[0]) and same_term(p[1], q[1]) for p in rgroups):
                ok, why = False, "missing group term"
                break
    if ok:
        want_resp = ["y"] if fdesc["resp"] else None
        if resp != want_resp:
            ok, why = False, "response"
    if ok:
        c.prove(True, "model == reference expansion (response, common set, group set)")
        return
    names = realise_names(b)
    c.stats.obligations += 1
    c.stats.violated += 1
    c.violations.append({"label": "expansion differs: " + why, "info": {"formula": render(text, names), "template": text, "got": describe(model)}, "model": {}})


def realise_names(b):
    """one concrete witness for the current path: a z3 model of the path condition (no fork)"""
    m = b.c.model_of()
    out = {}
    for i, (k, v) in enumerate(b.leaves):
        if k == "var":
            out[f"<v{i}>"] = NAMES[int(m.get(f"v{i}", 0))]
    return out


def render(text, names):
    for k, v in names.items():
        text = text.replace(k, v)
    return text


# ---------------------------------------------------------------------------------------------
# concrete reference (plain strings) used for replay
# ---------------------------------------------------------------------------------------------
def replay(info):
    """plain run: model_description on the concrete formula string vs the reference expansion
    computed from the same string by the reference parser + reference algebra"""
    from formulae import model_description

    f = info["formula"]
    if info.get("printed"):
        from formulae import model_description as _md

        m = _md(f)
        str(m)
        repr(m)
        try:
            concrete_model(m)
        except Exception as e:  # noqa
            return True, f"{f!r}: after str()/repr() the model cannot be read: {type(e).__name__}"
        return False, "model readable after printing"
    if "term" in info:
        from formulae import model_description as _md
        from formulae.terms.terms import Term as _T

        m = _md(f)
        for t in m.common_terms:
            if isinstance(t, _T) and len(t.components) == 2:
                tw = _T(*reversed(t.components))
                if tw == t and hash(tw) != hash(t):
                    return True, f"{f!r}: term {t.name} equals its factor-reversed twin but hashes differently"
        return False, "hashes consistent"
    try:
        want = reference_model(f)
    except Exception as e:  # noqa
        return False, f"reference cannot expand: {e!r}"
    try:
        m = model_description(f)
    except Exception as e:  # noqa
        return True, f"{f!r} raises {type(e).__name__}: {e}"
    got = concrete_model(m)
    if got != want:
        return True, f"{f!r}: got {got} want {want}"
    return False, "plain run agrees with the reference"


def concrete_model(m):
    from formulae.terms.terms import Intercept

    def conv(t):
        if isinstance(t, Intercept):
            return "1"
        return ":".join(sorted({str(c.name) for c in t.components}))

    return (
        None if m.response is None else conv(m.response.term),
        sorted({conv(t) for t in m.common_terms}),
        sorted({(conv(g.expr), conv(g.factor)) for g in m.group_terms}),
        len(m.common_terms) == len({conv(t) for t in m.common_terms}),
        # no factor twice inside a term
        all(isinstance(t, Intercept) or len(t.components) == len({str(c.name) for c in t.components})
            for t in list(m.common_terms) + [g.expr for g in m.group_terms] + [g.factor for g in m.group_terms]),
    )


def reference_model(formula):
    """reference expansion of a concrete formula string: scan with the real scanner only for
    tokenisation of the fully parenthesised text the harness produced, parse with RefParse,
    evaluate with the reference algebra."""
    from formulae.scanner import Scanner

    from vf.oracles import refparse

    toks = Scanner(formula).scan()  # includes the implicit '1 +'
    tree = refparse.ref_parse(toks)

    def text_of(t):
        k = t[0]
        if k == "var":
            return toks[t[1]].lexeme
        if k == "lit":
            return toks[t[1]].lexeme
        if k == "call":
            args = ", ".join(text_of(a) for a in t[2])
            return f"{text_of(t[1])}({args})"
        if k == "assign":
            return f"{text_of(t[1])}={text_of(t[2])}"
        raise ValueError(t)

    def is_lit(t, v=None):
        if t[0] == "lit":
            val = toks[t[1]].literal
            return v is None or val == v
        return False

    def to_T(t):
        k = t[0]
        if k == "var":
            return ("atom", toks[t[1]].lexeme)
        if k == "call":
            return ("atom", text_of(t))
        if k == "bin":
            op = toks[t[1]].lexeme
            if op == "**":
                return ("pow", to_T(t[2]), toks[t[3][1]].literal)
            return ("bin", op, to_T(t[2]), to_T(t[3]))
        raise ValueError(t)

    def chain(t, acc):
        """flatten left-assoc +/- chain into items"""
        if t[0] == "bin" and toks[t[1]].lexeme in "+-" and len(toks[t[1]].lexeme) == 1:
            # only the top-level chain is flattened (left spine)
            chain(t[2], acc)
            acc.append((toks[t[1]].lexeme, t[3]))
        else:
            acc.append(("+", t))
        return acc

    def items_of(t):
        out = []
        for op, sub in chain(t, []):
            if sub[0] == "lit" and toks[sub[1]].literal in (0, 1):
                out.append(("lit", op, toks[sub[1]].literal))
            elif sub[0] == "un" and toks[sub[1]].lexeme == "-" and is_lit(sub[2], 1):
                out.append(("lit", op, -1))
            elif sub[0] == "bin" and toks[sub[1]].lexeme == "|":
                out.append(("G", op, items_of(sub[2]), to_T(sub[3])))
            else:
                out.append(("T", op, to_T(sub)))
        return out

    resp = None
    if tree[0] == "bin" and toks[tree[1]].kind == "TILDE":
        resp = text_of(tree[2])
        tree = tree[3]
    its = items_of(tree)
    # the scanner's implicit "1 +" is the first item
    has_int, terms, groups = ref_chain(its, False)

    def conv(t):
        return "1" if t is INT else ":".join(sorted(set(t)))

    common = ([INT] if has_int else []) + terms
    return (resp, sorted({conv(t) for t in common}), sorted({(conv(e), conv(g)) for e, g in groups}), True, True)


# ---------------------------------------------------------------------------------------------
NASTY_NAMES = ["nan", "inf", "Infinity", "NaN", "`2019`", "`1e3`", "`07`", "e1", "none", "TRUE", "_", "`my var`", "x.y", "`a:b`"]
NASTY_SHAPES = ["y ~ A:B", "y ~ A*B", "y ~ A/B", "y ~ B:A + A", "y ~ (A + B)**2", "y ~ (A|B)", "y ~ (B|A)", "y ~ A + B - A", "y ~ A*B - A:B", "y ~ 0 + A:B:A"]


def concrete_name_spellings(rep):
    """the expansion does not depend on how a variable is spelt: names that look like numbers or keywords,
    back-quoted names (plain API against the reference expansion; the symbolic part treats names as
    opaque identities, this part checks that the implementation does so too)"""
    n = 0
    for a in NASTY_NAMES:
        for b in ("g", "`2019`", "nan"):
            if a == b:
                continue
            for sh in NASTY_SHAPES:
                f = sh.replace("A", "\0").replace("B", b).replace("\0", a)
                n += 1
                bad, detail = replay({"formula": f})
                if bad:
                    rep.violations.append({"label": "expansion differs: depends on the spelling of a name", "signature": {"what": "expansion differs", "part": "names", "formula": f},
                                           "replay": {"formula": f}, "reproduced": True, "detail": detail[:300]})
    rep.extra["concrete_name_formulas"] = n
    # call atoms that differ in a nested call, in the type of a literal, in a keyword value
    atoms = ["f(h(x))", "f(x)", "f(x, 1)", "f(x, True)", "f(x, 1.0)", "f(x, '1')", "g(x, a=1)", "g(x, a=2)", "f(x + 1)", "f(1 + x)"]
    m = 0
    for a in atoms:
        for b in atoms:
            if a == b:
                continue
            for sh in ("y ~ A:B", "y ~ A*B", "y ~ A + B", "y ~ c + A - B", "y ~ (A + B)**2", "y ~ (A|g) + (B|g)", "y ~ A/B"):
                f = sh.replace("A", "\0").replace("B", b).replace("\0", a)
                m += 1
                bad, detail = replay({"formula": f})
                if bad:
                    rep.violations.append({"label": "expansion differs: two different calls", "signature": {"what": "expansion differs", "part": "call atoms", "formula": f},
                                           "replay": {"formula": f}, "reproduced": True, "detail": detail[:300]})
    # one notion of "the same call" for every operator: keyword order
    from formulae import model_description

    for P, Q in (("g(x, a=1, b=2)", "g(x, b=2, a=1)"), ("g(x, k='s', j=h(x))", "g(x, j=h(x), k='s')")):
        m += 1
        try:
            colon = [t for t in model_description(f"y ~ 0 + {P}:{Q}").common_terms]
            plus = [t for t in model_description(f"y ~ 0 + {P} + {Q}").common_terms]
            minus = [t for t in model_description(f"y ~ 0 + c + {P} - {Q}").common_terms]
            group = model_description(f"y ~ ({P}|g) + ({Q}|g)").group_terms
        except Exception as e:  # noqa
            rep.violations.append({"label": "in-language formula raises", "signature": {"what": "in-language formula raises", "part": "call atoms", "formula": f"{P} / {Q}", "exc": type(e).__name__},
                                   "replay": {"P": P, "Q": Q}, "reproduced": True, "detail": f"{type(e).__name__}: {e}"})
            continue
        verdicts = {"':'": len(colon[0].components) == 1, "'+'": len(plus) == 1, "'-'": len(minus) == 1, "'|'": len(group) == 2}
        if len(set(verdicts.values())) != 1:
            rep.violations.append({"label": "expansion differs: operators disagree on whether two calls are the same", "signature": {"what": "expansion differs", "part": "call identity", "formula": f"{P} / {Q}"},
                                   "replay": {"P": P, "Q": Q, "same_call_according_to": verdicts}, "reproduced": True, "detail": f"{P} vs {Q}: same call according to {verdicts}"})
    rep.extra["concrete_call_atom_formulas"] = m
    # redundant parentheses around sums that contain group-specific terms
    pairs = [("y ~ x + ((1|g) + (1|h))", "y ~ x + (1|g) + (1|h)"), ("y ~ (x + (1|g))", "y ~ x + (1|g)"), ("y ~ a + (b + (1|g))", "y ~ a + b + (1|g)"), ("y ~ (x - (1|g))", "y ~ x - (1|g)"),
             ("y ~ ((1|g) - (1|g)) + x", "y ~ x"), ("y ~ ((1|g) + x)", "y ~ (1|g) + x"), ("y ~ ((1|g) - x) + x", "y ~ (1|g) + x"), ("y ~ ((x|g) + 0)", "y ~ (x|g) + 0"), ("y ~ (1 + (x|g))", "y ~ 1 + (x|g)"),
             ("y ~ (0 + (x|g))", "y ~ 0 + (x|g)"), ("y ~ ((x|g) + (x|g))", "y ~ (x|g)"), ("y ~ (a:b + (1|g)) + (1|h)", "y ~ a:b + (1|g) + (1|h)"), ("y ~ a*(b) + ((c|g))", "y ~ a*b + (c|g)")]
    for a, b in pairs:
        res = []
        for f in (a, b):
            try:
                res.append(concrete_model(model_description(f)))
            except Exception as e:  # noqa
                res.append(f"{type(e).__name__}: {e}"[:120])
        if res[0] != res[1]:
            rep.violations.append({"label": "expansion differs: redundant parentheses around a sum with group-specific terms", "signature": {"what": "expansion differs", "part": "parenthesised group terms", "formula": a},
                                   "replay": {"formulas": [a, b], "got": [str(r) for r in res]}, "reproduced": True, "detail": f"{a!r} -> {res[0]}; {b!r} -> {res[1]}"[:300]})
    rep.extra["parenthesised_group_pairs"] = len(pairs)


def _work(job):
    core.setup_paths()
    core.silence_logging()
    out = {"violations": [], "error": None, "n": 0, "stats": {}}
    tot = symx.Stats()
    samples = []
    try:
        for fdesc in job["formulas"]:
            c = symx.explore(harness, fdesc, callset(fdesc, job["tier"]), timeout_ms=20000)
            tot.merge(c.stats)
            out["n"] += 1
            for v in c.violations:
                rep, detail = replay(v["info"])
                sig = {"what": v["label"].split(":")[0], "formula": v["info"]["formula"]}
                if "exc" in v["info"]:
                    sig["exc"] = v["info"]["exc"]
                    sig["site"] = v["info"]["site"]
                out["violations"].append({"label": v["label"], "signature": sig, "replay": v["info"], "reproduced": rep, "detail": detail})
    except symx.Inconclusive as e:
        out["error"] = f"inconclusive: {e}"
    out["stats"] = tot.as_dict()
    return out


def run(tier, seed):
    rep = core.Report(ID, tier, seed)
    rep.functions = [
        "formulae.resolver.Resolver.visit* ", "formulae.model_description.model_description (Scanner/Parser replaced by the prepared AST)",
        "formulae.terms.terms: Intercept/NegatedIntercept/Term/GroupSpecificTerm/Response/Model operator overloads (__add__ __sub__ __matmul__ __mul__ __truediv__ __pow__ __or__ __eq__ __hash__), add_term, add_response",
        "formulae.terms.variable.Variable.__eq__/__hash__", "formulae.terms.call.Call.__eq__/__hash__", "formulae.terms.call_resolver.CallResolver + LazyCall/LazyValue/LazyVariable __eq__/__hash__",
    ]
    ncalls = len(CALLS)
    fl = list(formulas(tier))
    rep.bounds = {
        "formula shapes": f"{len(fl)} shapes from the documented-language grammar (tier {tier}); term expressions up to {3 if tier == 'quick' else 4} leaves over + - : * / and (sum)**n, n in 1..3; additive chains of up to {2 if tier == 'quick' else 3} items incl. the literals +1 -1 +0 +(-1); group terms (effect chain | grouping expression) with literals on the effect side",
        "leaves": f"each leaf is a variable whose NAME is a solver variable over {NAMES} (aliasing decided by z3) or one of the call atoms {CALLS} (all three for formulas with few leaves, fewer for larger ones: see callset())",
    }
    rep.outside = [
        "formulas outside the documented language (a|b|c, literals nested inside parenthesised sub-sums, '- 0', interaction with a number)",
        "term order inside the model (compared as sets, as the property states); response forms other than a plain variable (C15)",
        "scanner/parser (C01): the AST handed to the Resolver is the one the parser builds for the fully parenthesised rendering",
    ]
    rep.stubs = ["formulae.model_description.Scanner / Parser replaced for the duration of one call by stubs returning the prepared AST (variable lexemes are str subclasses whose equality is a z3 term)"]
    rep.assumptions = [
        "reference algebra = ref_T / ref_chain in this file, written from the C02 statement: terms are sets of factors, models sets of terms",
        "an exception for an in-language formula counts as a violation (the property says 'returns')",
    ]
    rep.rule = "one case = one feasible path: formula shape x leaf kinds x aliasing pattern of the symbolic names; non-trivial = at least one name comparison forked"
    chunks = [fl[i::64] for i in range(64)]
    results = core.pmap(_work, [{"formulas": ch, "tier": tier} for ch in chunks if ch])
    for r in results:
        if r["error"]:
            rep.inconclusive.append(r["error"])
        rep.add_stats(r["stats"])
        for v in r["violations"]:
            rep.violations.append(v)
            rep.replayed += 1
    rep.cases = int(rep.stats.get("paths", 0))
    rep.nontrivial = int(rep.stats.get("paths", 0)) - len(fl)
    rep.extra["formula_shapes"] = len(fl)
    rep.samples = [
        {"shape": "y ~ 1 + (<v0> + f(x, 2)) * (<v1> + <v2>)", "path": "v0!=v1, v0!=v2, v1==v2 -> one path for every naming with that aliasing"},
        {"shape": "1 + (0 + <v0> | <v1> + <v2>)", "path": "v1!=v2"},
    ]
    if rep.cases == 0:
        rep.inconclusive.append("vacuous: nothing explored")
    concrete_name_spellings(rep)
    return core.finish(rep)


def replay_file(v):
    return replay(v["replay"])
