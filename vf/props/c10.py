"""C10 -- unseen levels / new groups at prediction follow the configured policy.

Training frame: complete factorial, numeric cells z3 reals.  New frame: four training rows in
which chosen cells of a categorical variable are replaced by a level never seen in training.
The result is compared (as z3 terms) with the evaluation of the same rows without the unseen
value: zero rows for the columns of that variable, one appended trailing block per group-specific
term of that factor, everything else identical.  Modes and sequences of mode changes are
decision variables.  Config is checked on candidate key/value strings (documented ones, one-character edits, case variants) as decision variables.
"""
import itertools
import re
import subprocess
import warnings

import numpy as np
import pandas as pd

from vf import core, gen, pipe, symx

ID = "C10"
FORMULAS = [
    "y ~ f", "y ~ 0 + f", "y ~ x + f + g", "y ~ f:g", "y ~ x:f", "y ~ f + f:x", "y ~ C(k)", "y ~ 0 + C(k) + x", "y ~ C(g, Sum)", "y ~ g:C(k)",
    "y ~ x + (1|g)", "y ~ (x|g)", "y ~ (f|g)", "y ~ (0 + f|g)", "y ~ (1|g) + (x|h)", "y ~ (x|g:h)", "y ~ (1|C(k))", "y ~ f + (x|g) + (1|h)", "y ~ (1|g) + (1|h) + (x|g)",
    "y ~ C(g, levels=gl)", "y ~ x:T(g, 't', levels=gl)", "y ~ (1|C(g, levels=gl))",  # codings that carry their own level list
]
UNSEEN = {"f": "ab", "g": "ss", "h": "qq", "k": 99, "wid": "G999"}
WIDE = "y ~ (1|wid) + (x|g)"  # a block of more than 256 columns  # longer than, and starting like, a training level
MODES = ["error", "warning", "silent"]


def cases(tier):
    out = []
    for f in FORMULAS:
        vars_ = [v for v in gen.used_vars(f) if v in gen.LEVELS]
        placements = [((v,), rows) for v in vars_ for rows in ([0], [0, 2], [1, 3])]
        # two unseen values that cannot be compared with each other (a label and a number) in one column
        placements += [((v,), "mixed") for v in vars_[:1] if v != "k"]
        if len(vars_) >= 2:
            placements += [((vars_[0], vars_[1]), [0]), ((vars_[0], vars_[1]), "split")]
        if tier == "quick":
            placements = [p for i, p in enumerate(placements) if i % 2 == 0 or len(p[0]) > 1 or p[1] == "mixed"]
        for vs, rows in placements:
            for mode in MODES:
                for seq in (["direct"] if tier == "quick" else ["direct", "via-other", "after-invalid"]):
                    out.append((f, list(vs), rows, mode, seq, "str"))
                    if mode != "error" and rows == [0] and seq == "direct":
                        out.append((f, list(vs), rows, mode, seq, "ord"))  # declared (non-alphabetical) level order
                    if rows == [0] and seq == "direct":
                        out.append((f, list(vs), rows, mode, seq, "catnew"))  # the NEW frame stores the column as a pandas categorical
        # flavour variation for one placement
    for vs in (["g"], ["wid"], ["wid", "g"]):
        for mode in ("silent", "warning") if tier != "quick" else ("silent",):
            out.append((WIDE, vs, [0] if len(vs) == 1 else "split", mode, "direct", "str"))
    return out


def signature(case, v):
    info = v.get("info") or {}
    sig = {"formula": case[0], "unseen_in": case[1], "rows": case[2], "mode": case[3], "seq": case[4], "flavour": case[5], "what": v["label"].split(" [")[0]}
    if isinstance(info, dict) and "exc" in info:
        sig["exc"], sig["site"] = info["exc"], info.get("site")
    return sig


def set_mode(config, mode, seq, env):
    key = "EVAL_UNSEEN_CATEGORIES"
    if seq == "via-other":
        config[key] = [m for m in MODES if m != mode][0]
        config[key] = mode
    elif seq == "after-invalid":
        config[key] = mode
        for k, v, exc in ((key, "bogus", ValueError), ("NOPE", "silent", KeyError), (key, None, ValueError)):
            try:
                config[k] = v
                env.fail("config accepts an undocumented key/value", {"key": k, "value": v})
            except exc:
                pass
        env.prove(config[key] == mode, "config unchanged by refused assignments")
    else:
        config[key] = mode


def harness(env, case):
    from formulae import config, design_matrices

    formula, vs, rows_spec, mode, seq, flavour = case
    vars_ = gen.used_vars(formula)
    catnew = flavour == "catnew"
    flavour = "str" if catnew else flavour
    df, rows = gen.build_frame(env, vars_, flavour, "scramble", min_rows=5)
    n = len(df)
    pick = [0, n // 3, n // 2, n - 1]
    config["EVAL_UNSEEN_CATEGORIES"] = "error"
    try:
        with env.running():
            dm = design_matrices(formula, df, extra_namespace={"gl": ["t", "u", "s"]})
    except symx.PathEnd:
        raise
    except Exception as e:
        if env.mode == "sym":
            env.c.reach(f"no design: {type(e).__name__}")
        return
    seen = df.iloc[pick].reset_index(drop=True)
    unseen = seen.copy()
    affected = {}  # var -> rows of the new frame carrying an unseen level
    for i, v in enumerate(vs):
        rr = rows_spec if rows_spec not in ("split", "mixed") else ([0] if i == 0 else [2])
        if rows_spec == "mixed":
            rr = [0, 2]
        col = list(unseen[v].values)
        for r in rr:
            col[r] = UNSEEN[v]
        if rows_spec == "mixed":
            col[2] = 7
        unseen[v] = pd.Series(col, dtype=df[v].dtype if v == "k" else ("str" if rows_spec != "mixed" else object))
        if flavour == "ord" and v != "k":
            seen[v] = pd.Series(list(seen[v].values), dtype="str")
        affected[v] = list(rr)
        if catnew and v != "k":
            unseen[v] = pd.Series(pd.Categorical(list(unseen[v].values)))
            seen[v] = pd.Series(pd.Categorical(list(seen[v].values)))
    try:
        set_mode(config, mode, seq, env)
        for what in ("common", "group"):
            M = getattr(dm, what)
            if M is None:
                continue
            with env.running():
                ref = M.evaluate_new_data(seen)
            caught = []
            try:
                with warnings.catch_warnings(record=True) as wlist:
                    warnings.simplefilter("always")
                    import contextlib, io
                    with contextlib.redirect_stdout(io.StringIO()):
                        if env.mode == "sym":
                            with pipe.symbolic_numpy():
                                new = M.evaluate_new_data(unseen)
                        else:
                            new = M.evaluate_new_data(unseen)
                    caught = [w for w in wlist if issubclass(w.category, UserWarning)]
                raised = None
            except symx.PathEnd:
                raise
            except symx.Inconclusive:
                raise
            except Exception as e:
                raised = e
            touches = any(re.search(r"(?<![\w.])" + v + r"(?![\w.])", name) for v in vs for name in M.terms)
            if mode == "error":
                if touches:
                    env.prove(raised is not None, f"{what}: error mode raises on an unseen level")
                elif raised is not None:
                    env.fail(f"{what}: raises although the variable is not in this matrix", {"exc": type(raised).__name__, "site": core.repo_site(raised)})
                continue
            if raised is not None:
                env.fail(f"{what}: {mode} mode raises on an unseen level", {"exc": type(raised).__name__, "site": core.repo_site(raised), "msg": str(raised)[:200]})
                continue
            if touches:
                env.prove((len(caught) > 0) == (mode == "warning"), f"{what}: UserWarning iff mode is 'warning'")
            if what == "common":
                check_common(env, M, ref, new, affected)
            else:
                check_group(env, M, ref, new, affected, seen)
                # the same frames evaluated on the RESULT (which already has a slot for the new group): the answer
                # depends on the design and the frame only
                try:
                    with env.running():
                        again_seen = new.evaluate_new_data(seen)
                        if env.mode == "sym":
                            with pipe.symbolic_numpy():
                                again_unseen = new.evaluate_new_data(unseen)
                        else:
                            again_unseen = new.evaluate_new_data(unseen)
                except symx.PathEnd:
                    raise
                except symx.Inconclusive:
                    raise
                except Exception as e:
                    env.fail("group: a result of evaluate_new_data cannot evaluate new data itself", {"exc": type(e).__name__, "site": core.repo_site(e)})
                    continue
                env.prove(tuple(again_seen.factors_with_new_levels) == tuple(ref.factors_with_new_levels) and tuple(again_unseen.factors_with_new_levels) == tuple(new.factors_with_new_levels),
                          "group: factors_with_new_levels does not depend on the instance evaluate_new_data is called on")
                env.prove_equal(np.asarray(again_seen.design_matrix), np.asarray(ref.design_matrix), "group: chained evaluation of known groups == direct evaluation")
                env.prove_equal(np.asarray(again_unseen.design_matrix), np.asarray(new.design_matrix), "group: chained evaluation of unseen groups == direct evaluation")
    finally:
        config["EVAL_UNSEEN_CATEGORIES"] = "error"


def is_zero(x):
    if isinstance(x, symx.Sym):
        return symx._const_value(x.e) == 0
    return isinstance(x, (int, float, np.integer, np.floating)) and x == 0


def mentions(label, var):
    return re.search(r"(?<![\w.])" + re.escape(var) + r"(?![\w.])", label) is not None


def check_common(env, M, ref, new, affected):
    labels = [str(c) for c in M.as_dataframe().columns]
    A, B = np.asarray(new.design_matrix), np.asarray(ref.design_matrix)
    if not env.prove(A.shape == B.shape and A.shape[1] == len(labels), "common: shape unchanged by unseen levels"):
        return
    want = B.astype(object).copy()
    for v, rr in affected.items():
        for j, lab in enumerate(labels):
            if mentions(lab, v):
                for r in rr:
                    want[r, j] = 0
    env.prove_equal(A, want, "common: columns of the variable are zero on exactly the unseen rows, everything else unchanged")
    env.prove(dict(new.slices) == dict(M.slices), "common: slices unchanged")


def check_group(env, M, ref, new, affected, seen):
    A, B = np.asarray(new.design_matrix), np.asarray(ref.design_matrix)
    want_blocks = []
    want_factors = []
    start = 0
    ok = True
    for name, term in M.terms.items():
        sl = M.slices[name]
        Bt = B[:, sl].astype(object)
        G = len(term.groups)
        p = (sl.stop - sl.start) // G
        fvars = [v for v in affected if any(mentions(c.name, v) for c in term.factor.components)]
        evars = [v for v in affected if v not in fvars and hasattr(term.expr, "components") and any(mentions(c.name, v) for c in term.expr.components)]
        newrows = sorted({r for v in fvars for r in affected[v]})
        W = Bt.copy()
        # unseen level in the effect variable: its columns are zero on those rows
        if evars:
            elabels = term.labels
            for v in evars:
                for j, lab in enumerate(elabels):
                    if mentions(lab.split("|")[0], v):
                        for r in affected[v]:
                            W[r, j] = 0
        if newrows:
            # rows of an unseen group leave the existing blocks and fill one trailing block
            extra = np.zeros((W.shape[0], p), dtype=object)
            for r in newrows:
                g_old = None
                for s in range(G):
                    blk = Bt[r, s * p : (s + 1) * p]
                    if any(not is_zero(x) for x in blk):
                        g_old = s
                        break
                if g_old is not None:
                    extra[r, :] = W[r, g_old * p : (g_old + 1) * p]
                W[r, :] = 0
            W = np.column_stack([W, extra])
            if term.factor.name not in want_factors:
                want_factors.append(term.factor.name)
        width = W.shape[1]
        nsl = new.slices.get(name)
        if not env.prove(nsl is not None and (nsl.start, nsl.stop) == (start, start + width), "group: slices contiguous and shifted consistently"):
            ok = False
            break
        start += width
        want_blocks.append(W)
    if not ok:
        return
    want = np.column_stack(want_blocks)
    if env.prove(A.shape == want.shape, "group: one extra trailing block per term of a factor with unseen groups, none otherwise"):
        env.prove_equal(A, want, "group: new block carries the effect values of exactly the unseen rows; existing blocks unchanged")
    env.prove(tuple(new.factors_with_new_levels) == tuple(want_factors), "group: factors_with_new_levels names exactly the factors with unseen groups")
    env.prove_equal(M.design_matrix, M.design_matrix, "group: training matrix still readable")


KEY = "EVAL_UNSEEN_CATEGORIES"


def config_candidates():
    keys = [KEY, KEY.lower(), KEY + " ", " " + KEY, KEY[:-1], KEY + "S", "", "EVAL_UNSEEN", "FIELDS", "__class__", "eval_unseen_categories"]
    keys += [KEY[:i] + ch + KEY[i + 1 :] for i in (0, 4, 11, 21) for ch in ("_", "X", "e")]
    vals = ["error", "warning", "silent", "Error", "WARNING", "silent ", "", "ignore", "raise", "errors", "warn", "silence", "e"]
    return sorted(set(keys)), vals


def config_harness(c):
    """Config accepts exactly its documented keys and values; a refused assignment leaves the
    stored value unchanged.  Key and value are decision variables over the candidate lists."""
    from formulae.config import Config

    keys, vals = config_candidates()
    k = symx.SymKind("cfg_key", keys, c).realise()
    v = symx.SymKind("cfg_val", vals, c).realise()
    via_attr = c.pick(3)  # 0: item assignment, 1: attribute assignment, 2: constructor dict
    cfg = Config()
    before = cfg[KEY]
    ok = k == KEY and v in MODES
    try:
        if via_attr == 2:
            cfg = Config({k: v})
        elif via_attr:
            setattr(cfg, k, v)
        else:
            cfg[k] = v
        accepted, exc = True, None
    except (KeyError, ValueError) as e:
        accepted, exc = False, e
    except symx.PathEnd:
        raise
    except Exception as e:  # noqa
        accepted, exc = False, e
    good = accepted == ok and (cfg[KEY] == (v if accepted else before))
    if not accepted and not ok:
        good = good and isinstance(exc, KeyError if k != KEY else ValueError)
    if good:
        c.prove(True, "config: accepts exactly the documented key/values, refused assignment changes nothing")
    else:
        c.stats.obligations += 1
        c.stats.violated += 1
        c.violations.append({"label": "config accepts/refuses wrongly", "info": {"key": k, "value": v, "via_attr": via_attr, "accepted": accepted}, "model": {}})


def replay_config(info):
    from formulae.config import Config

    cfg = Config()
    before = cfg[KEY]
    ok = info["key"] == KEY and info["value"] in MODES
    try:
        if info["via_attr"] == 2:
            cfg = Config({info["key"]: info["value"]})
        elif info["via_attr"]:
            setattr(cfg, info["key"], info["value"])
        else:
            cfg[info["key"]] = info["value"]
        acc = True
    except Exception:  # noqa
        acc = False
    bad = acc != ok or cfg[KEY] != (info["value"] if acc else before)
    return bad, f"Config()[{info['key']!r}] = {info['value']!r}: accepted={acc}, documented={ok}"


def run(tier, seed):
    rep = core.Report(ID, tier, seed)
    rep.functions = ["formulae.terms.variable.Variable.eval_new_data_categoric", "formulae.terms.call.Call.eval_new_data_categoric/_categorical_box", "formulae.terms.terms.GroupSpecificTerm.eval_new_data",
                     "formulae.matrices.GroupEffectsMatrix.evaluate_new_data (slices, factors_with_new_levels), CommonEffectsMatrix.evaluate_new_data", "formulae.config.Config.__setitem__/__setattr__"]
    cs = cases(tier)
    rep.bounds = {"formulas": FORMULAS, "placements": "unseen level in one used categorical (rows [0], [0,2], [1,3] of a 4-row new frame) or in two at once (same row / different rows)", "modes": MODES,
                  "mode sequences": ["direct"] if tier == "quick" else ["direct", "via-other", "after-invalid (bogus value, unknown key, None)"], "cases": len(cs)}
    rep.outside = ["more than one distinct unseen level per variable; unseen levels inside stateful numeric transforms", "floats"]
    rep.stubs = pipe.STUBS
    rep.assumptions = ["the reference for 'what they would be without them' is the evaluation of the same rows with the training value in place of the unseen one"]
    rep.rule = "one case = (formula, variables and rows carrying an unseen level, mode, mode-change sequence); non-trivial = the variable occurs in the evaluated matrix"
    pipe.run_cases(rep, "vf.props.c10", "harness", cs)
    c = symx.explore(config_harness)
    rep.add_stats(c.stats.as_dict())
    for v in c.violations:
        r, d = replay_config(v["info"])
        rep.violations.append({"label": v["label"], "signature": {"what": "config", **v["info"]}, "replay": v["info"], "reproduced": r, "detail": d})
        rep.replayed += 1
    rep.extra["config_candidates"] = {"keys": config_candidates()[0], "values": config_candidates()[1]}
    rep.nontrivial = rep.cases
    return core.finish(rep)
