"""C01 -- formula grammar: precedence, associativity, nothing silently ignored.

H1 (parser): the real ``Parser`` is executed on a sequence of n <= N tokens whose *kinds are
solver variables* over all 31 token kinds the scanner can emit.  Every comparison the parser
makes on a token kind is a solver fork, so one path stands for a whole class of token
sequences.  On the same path the reference parser (oracles/refparse.py) runs on the same
symbolic tokens and the two trees are compared by token positions.
H2 (scanner): the real ``Scanner`` is executed on a string-like object of l <= L symbolic
characters; the reference lexer runs on the same object; token kinds, spans and literal values
are compared, plus the tilde / quote / implicit-intercept rules.
"""
import os
import sys
import time

import z3

from vf import core, symx
from vf.oracles import refparse
from vf.oracles.refparse import RefReject

ID = "C01"

KINDS = [
    "LEFT_PAREN", "RIGHT_PAREN", "LEFT_BRACKET", "RIGHT_BRACKET", "LEFT_BRACE", "RIGHT_BRACE",
    "COMMA", "PERIOD", "PLUS", "MINUS", "SLASH_SLASH", "SLASH", "STAR_STAR", "STAR",
    "BANG_EQUAL", "BANG", "EQUAL_EQUAL", "EQUAL", "LESS_EQUAL", "LESS", "GREATER_EQUAL",
    "GREATER", "MODULO", "TILDE", "COLON", "PIPE", "NUMBER", "IDENTIFIER", "PYTHON_LITERAL",
    "STRING", "BQNAME",
]  # fmt: skip
# concrete spelling used when a path is written out / replayed as a string
SPELL = {
    "LEFT_PAREN": "(", "RIGHT_PAREN": ")", "LEFT_BRACKET": "[", "RIGHT_BRACKET": "]",
    "LEFT_BRACE": "{", "RIGHT_BRACE": "}", "COMMA": ",", "PERIOD": ".", "PLUS": "+",
    "MINUS": "-", "SLASH_SLASH": "//", "SLASH": "/", "STAR_STAR": "**", "STAR": "*",
    "BANG_EQUAL": "!=", "BANG": "!", "EQUAL_EQUAL": "==", "EQUAL": "=", "LESS_EQUAL": "<=",
    "LESS": "<", "GREATER_EQUAL": ">=", "GREATER": ">", "MODULO": "%", "TILDE": "~",
    "COLON": ":", "PIPE": "|", "NUMBER": "2", "IDENTIFIER": "a", "PYTHON_LITERAL": "True",
    "STRING": "'s'", "BQNAME": "`q`",
}  # fmt: skip
IDENTS = "abcdefgh"


class LexRef(str):
    """placeholder lexeme that remembers its token position"""

    pos = None


class LitRef:
    """placeholder literal value (non-string) that remembers its token position"""

    def __init__(self, pos):
        self.pos = pos

    def __eq__(self, other):  # Resolver compares literal values with 0 / 1
        raise symx.PathEnd()  # never reached in H1 (resolver only runs on realised tokens)

    __hash__ = None


def mk_lexref(pos):
    s = LexRef(f"<tok{pos}>")
    s.pos = pos
    return s


def make_lazy_token_class():
    from formulae.token import Token

    class LazyTok(Token):
        """a real Token whose kind is a solver variable"""

        def __init__(self, pos, kindvar):  # pylint: disable=super-init-not-called
            self.pos = pos
            self.kind = kindvar

        @property
        def lexeme(self):
            return mk_lexref(self.pos)

        @lexeme.setter
        def lexeme(self, v):
            pass

        @property
        def literal(self):
            if self.kind == "STRING":
                return mk_lexref(self.pos)
            return LitRef(self.pos)

        @literal.setter
        def literal(self, v):
            pass

    return LazyTok


def pos_of(x):
    return getattr(x, "pos", None)


def realise_tokens(c, toks, n):
    """fork on the concrete kind of every token; returns list of kind strings"""
    out = []
    for t in toks[:n]:
        out.append(t.kind.realise())
    return out


def spell(kinds):
    """concrete formula text for a sequence of kinds (distinct identifiers per position)"""
    parts = []
    k = 0
    for kd in kinds:
        if kd == "IDENTIFIER":
            parts.append(IDENTS[k % len(IDENTS)])
            k += 1
        else:
            parts.append(SPELL[kd])
    return " ".join(parts)


def concrete_tokens(kinds):
    from formulae.token import Token

    toks = []
    k = 0
    for kd in kinds:
        if kd == "IDENTIFIER":
            toks.append(Token(kd, IDENTS[k % len(IDENTS)]))
            k += 1
        elif kd == "NUMBER":
            toks.append(Token(kd, "2", 2))
        elif kd == "STRING":
            toks.append(Token(kd, "'s'", "s"))
        elif kd == "PYTHON_LITERAL":
            toks.append(Token(kd, "True", True))
        else:
            toks.append(Token(kd, SPELL[kd]))
    toks.append(Token("EOF", ""))
    return toks


def concrete_verdict(kinds):
    """plain (non-symbolic) run of real parser + resolver and of the reference on concrete
    tokens.  Returns (real_outcome, ref_outcome, detail): outcomes are ('tree', t) or
    ('reject', why)"""
    from formulae.parser import Parser
    from formulae.resolver import Resolver

    toks = concrete_tokens(kinds)
    idx = {id(t): i for i, t in enumerate(toks)}

    def pos_c(x):
        if id(x) in idx:
            return idx[id(x)]
        # literal values / lexemes: find by identity of the token attribute
        for i, t in enumerate(toks):
            if x is t.literal and x is not None and not isinstance(x, (bool, int)):
                return i
        return None

    try:
        p = Parser(toks)
        ast = p.parse()
        cursor = p.current
    except Exception as e:  # noqa
        return ("reject", f"parser: {type(e).__name__}"), None, None
    try:
        Resolver(ast).resolve()
        resolved = True
        why = None
    except Exception as e:  # noqa
        resolved = False
        why = f"resolver: {type(e).__name__}: {e}"
    return ("accept", cursor, resolved, why), ast, toks


SLICES = {
    "ops": ["IDENTIFIER", "NUMBER", "PLUS", "MINUS", "STAR", "SLASH", "COLON", "STAR_STAR", "PIPE", "TILDE", "EQUAL_EQUAL", "LESS", "LEFT_PAREN", "RIGHT_PAREN"],
    "cmp": ["IDENTIFIER", "LEFT_BRACE", "RIGHT_BRACE", "EQUAL_EQUAL", "BANG_EQUAL", "LESS", "GREATER_EQUAL", "PLUS"],
    "chain_pm": ["PLUS", "MINUS"], "chain_pc": ["PLUS", "COLON"], "chain_ss": ["STAR", "SLASH"], "chain_ms": ["MINUS", "STAR"], "chain_pmc": ["PLUS", "MINUS", "COLON"], "chain_pipe": ["PLUS", "PIPE"],
    "calls": ["IDENTIFIER", "LEFT_PAREN", "RIGHT_PAREN", "COMMA", "EQUAL", "NUMBER", "STRING", "PLUS", "LEFT_BRACKET", "RIGHT_BRACKET", "LEFT_BRACE", "RIGHT_BRACE"],
}


def h1(c, n, with_parens, alphabet=None):
    """one path of the parser harness for sentences of n tokens"""
    from formulae.parser import Parser
    from formulae.token import Token

    LazyTok = h1.LazyTok
    kinds = SLICES[alphabet] if alphabet else KINDS
    tag = f"{alphabet}_" if alphabet else ""
    if alphabet and alphabet.startswith("chain_"):
        # long flat chains: names at the even positions, one of a few operators at the odd ones
        toks = [LazyTok(i, symx.SymKind(f"k{tag}{i}", ["IDENTIFIER"] if i % 2 == 0 else kinds, c)) for i in range(n)]
    else:
        toks = [LazyTok(i, symx.SymKind(f"k{tag}{i}", kinds, c)) for i in range(n)]
    toks.append(Token("EOF", ""))

    parser = Parser(list(toks))
    try:
        ast = parser.parse()
    except symx.PathEnd:
        raise
    except Exception:  # rejected by the implementation: nothing to show
        c.reach("real_rejects")
        return
    c.reach("real_accepts")
    # reference on the same symbolic tokens (forks shared through the path condition)
    try:
        ref = refparse.ref_parse(toks)
        ref_ok = True
    except RefReject as e:
        ref_ok = False
        ref = str(e)
    real = refparse.canon(ast, pos_of)
    at_eof = parser.current == n
    ok = ref_ok and at_eof and real == ref
    if ok:
        c.prove(True, "accepted sentence: tree == reference tree and cursor at EOF")
        if with_parens:
            paren_check(c, toks, n, ref)
        if n <= h1.NM or alphabet == "calls":
            every_token_matters(c, toks, n, kinds)
        return
    # candidate violation: realise the tokens and decide on the concrete sentence
    kinds = realise_tokens(c, toks, n)
    verdict, _, _ = concrete_verdict(kinds)
    if verdict[0] == "reject" or (verdict[0] == "accept" and not verdict[2]):
        # the public pipeline (Parser + Resolver) refuses this sentence: allowed
        c.prove(True, "sentence outside the reference language is refused by Parser+Resolver")
        return
    what = (
        "tokens ignored (cursor not at EOF)" if not at_eof
        else ("accepted but not a sentence of the grammar" if not ref_ok else "tree differs from reference")
    )
    c.stats.obligations += 1
    c.stats.violated += 1
    c.violations.append(
        {
            "label": what,
            "info": {"kinds": kinds, "text": spell(kinds), "real": repr(real), "ref": repr(ref),
                     "cursor": parser.current, "n": n},
            "model": {},
        }
    )


VARIANTS = {"IDENTIFIER": ("va", "vb"), "NUMBER": ("2", "3"), "STRING": ("'s'", "'t'"), "BQNAME": ("`q`", "`r`"), "PYTHON_LITERAL": ("True", "False")}


def describe_model(text):
    """everything model_description exposes about a formula, as one comparable value"""
    from formulae import model_description

    m = model_description(text)

    def comp(cmp):
        return (type(cmp).__name__, str(cmp.name), getattr(cmp, "reference", None))

    def term(t):
        if type(t).__name__ == "Intercept":
            return "1"
        return tuple(comp(x) for x in t.components)

    resp = None if m.response is None else term(m.response.term)
    return (resp, tuple(term(t) for t in m.common_terms), tuple((term(g.expr), term(g.factor)) for g in m.group_terms))


def every_token_matters(c, toks, n, kinds_alphabet):
    """metamorphic check on one witness sentence of the path (a z3 model of the path condition,
    no fork): the sentence is written out with a distinct spelling per value-carrying token and
    given to the real model_description; re-spelling a single such token inside a call or a
    subscript must change the description -- otherwise that token was ignored."""
    m = c.model_of()
    tag = toks[0].kind.name[1:-1] if n else ""
    kinds = []
    for i in range(n):
        nm = toks[i].kind.name
        kinds.append(kinds_alphabet[int(m.get(nm, 0))])
    spell_a = []
    for i, kd in enumerate(kinds):
        if kd == "IDENTIFIER":
            spell_a.append(f"v{i}")
        elif kd in VARIANTS:
            spell_a.append(VARIANTS[kd][0])
        else:
            spell_a.append(SPELL[kd])
    base_text = " ".join(spell_a)
    try:
        base = describe_model(base_text)
    except Exception:  # refused by scanner / resolver: nothing is accepted, nothing ignored
        c.reach("witness refused by model_description")
        return
    # a term that is subtracted at the top level may legitimately leave no trace in the model
    d0 = 0
    for kd in kinds:
        if kd in ("LEFT_PAREN", "LEFT_BRACKET", "LEFT_BRACE"):
            d0 += 1
        elif kd in ("RIGHT_PAREN", "RIGHT_BRACKET", "RIGHT_BRACE"):
            d0 -= 1
        elif kd == "MINUS" and d0 == 0:
            c.reach("witness has a top-level subtraction (token influence not demanded)")
            return
    depth = 0
    inside = []
    for kd in kinds:
        if kd in ("RIGHT_PAREN", "RIGHT_BRACKET", "RIGHT_BRACE"):
            depth -= 1
        inside.append(depth > 0)
        if kd in ("LEFT_PAREN", "LEFT_BRACKET", "LEFT_BRACE"):
            depth += 1
    for i, kd in enumerate(kinds):
        if kd not in VARIANTS:
            continue
        # only tokens inside ( ), [ ] or { }: at the top level of a formula the term algebra may
        # legitimately not depend on a token ('a - b' is 'a' whatever b is)
        if not inside[i]:
            continue
        if not any(k in ("LEFT_BRACKET", "LEFT_BRACE") or (k == "LEFT_PAREN" and j > 0 and kinds[j - 1] == "IDENTIFIER") for j, k in enumerate(kinds[:i])):
            continue  # plain grouping parentheses: same as top level
        alt = list(spell_a)
        alt[i] = f"w{i}" if kd == "IDENTIFIER" else VARIANTS[kd][1]
        if kd == "NUMBER" and i > 0 and kinds[i - 1] == "STAR_STAR":
            continue  # x ** 2 and x ** 3 both mean x (documented: power of a single variable is the variable)
        try:
            other = describe_model(" ".join(alt))
        except Exception:  # noqa
            continue
        if other == base:
            c.stats.obligations += 1
            c.stats.violated += 1
            c.violations.append({"label": "a token of an accepted formula is ignored", "info": {"kinds": kinds, "text": base_text, "alt": " ".join(alt), "position": i, "n": n, "h3": True}, "model": {}})
            return
    c.prove(True, "every value-carrying token of the witness sentence influences the model")


def wrap_spans(tree, out):
    """collect (first,last) token spans of operand-position sub-expressions of a ref tree"""
    k = tree[0]
    if k == "bin":
        a = wrap_spans(tree[2], out)
        b = wrap_spans(tree[3], out)
        sp = (a[0], b[1])
    elif k == "un":
        a = wrap_spans(tree[2], out)
        sp = (tree[1], a[1])
    elif k in ("var", "lit", "bq"):
        if k == "var" and tree[2] is not None:
            sp = (tree[1], tree[2] + 1)
        else:
            sp = (tree[1], tree[1])
    else:
        return None  # calls / assignments / braces: spans not tracked -> not wrapped
    out.append(sp)
    return sp


def paren_check(c, toks, n, ref):
    """redundant parentheses: wrap each tracked operand span in ( ) and re-parse with the real
    parser on the same symbolic tokens (all decisions are already determined by the path)."""
    from formulae.parser import Parser
    from formulae.token import Token

    spans = []
    try:
        ok = wrap_spans(ref, spans)
    except TypeError:
        ok = None
    if ok is None and not spans:
        return
    for (a, b) in spans:
        new = list(toks[:a]) + [Token("LEFT_PAREN", "(")] + list(toks[a : b + 1]) + [Token("RIGHT_PAREN", ")")] + list(toks[b + 1 :])
        p = Parser(new)
        try:
            ast2 = p.parse()
            real2 = refparse.canon(ast2, pos_of)
            good = real2 == ref and p.tokens[p.current].kind == "EOF"
        except symx.PathEnd:
            raise
        except Exception as e:  # noqa
            good = False
            real2 = f"{type(e).__name__}"
        if good:
            c.prove(True, "redundant parentheses leave the tree unchanged")
        else:
            kinds = realise_tokens(c, toks, n)
            c.stats.obligations += 1
            c.stats.violated += 1
            c.violations.append(
                {"label": "redundant parentheses change the parse",
                 "info": {"kinds": kinds, "text": spell(kinds), "wrapped": [a, b], "real": repr(real2), "ref": repr(ref), "n": n},
                 "model": {}})
            return


# ---------------------------------------------------------------------------------------------
# H2 scanner
# ---------------------------------------------------------------------------------------------
ALPHABET_FULL = list("aT015._()[]{},+-/*!=<>%~:| \n\t\r'\"`#é")
ALPHABET_MULTI = list("a1._*/=<!'` ~")
ALPHABET_KW = list("TtRrUuEeNnOo")  # spellings around the literals True / None
ALPHABET_KW5 = list("FfAaLlSsEe")  # ... and False


class SymStr:
    """string-like object of symbolic characters (each a SymKind over an alphabet)"""

    def __init__(self, chars, lo=0, hi=None, root=None):
        self.chars = chars
        self.lo = lo
        self.hi = len(chars) if hi is None else hi
        self.root = root or self

    def __len__(self):
        return self.hi - self.lo

    def __getitem__(self, i):
        if isinstance(i, slice):
            start, stop, step = i.indices(len(self))
            assert step == 1
            return SymStr(self.chars, self.lo + start, self.lo + max(start, stop), self.root)
        if i < 0:
            i += len(self)
        if not 0 <= i < len(self):
            raise IndexError(i)
        return self.chars[self.lo + i]

    def realise(self):
        return "".join(ch.realise() for ch in self.chars[self.lo : self.hi])

    def __str__(self):
        return self.realise()

    def __float__(self):
        return float(self.realise())

    def __int__(self):
        return int(self.realise())

    def __index__(self):
        raise TypeError

    def __eq__(self, o):
        if isinstance(o, SymStr):
            return (self.chars is o.chars and self.lo == o.lo and self.hi == o.hi) or self.realise() == o.realise()
        if isinstance(o, str):
            if len(o) != len(self):
                return False
            for ch, oc in zip(self.chars[self.lo : self.hi], o):
                if not ch == oc:
                    return False
            return True
        return False

    def __ne__(self, o):
        return not self.__eq__(o)

    def __hash__(self):
        return 0

    def __add__(self, o):
        return self.realise() + o

    def __radd__(self, o):
        return o + self.realise()

    def span(self):
        return (self.lo, self.hi)

    def __getattr__(self, name):
        # any other str method: realise the characters (fork per value) and delegate
        if name.startswith("__"):
            raise AttributeError(name)
        return getattr(self.realise(), name)

    def __iter__(self):
        return iter(self.chars[self.lo : self.hi])

    def __contains__(self, o):
        return o in self.realise()


def ref_lex(code):
    """reference lexer, written from the documented token rules.  Works on str or SymStr
    (only uses len, indexing, ==, isdigit/isalpha/isalnum).  Returns list of
    (kind, start, end) or raises RefReject."""
    n = len(code)
    i = 0
    out = []
    TWO = {"/": ("/", "SLASH_SLASH", "SLASH"), "*": ("*", "STAR_STAR", "STAR"),
           "!": ("=", "BANG_EQUAL", "BANG"), "=": ("=", "EQUAL_EQUAL", "EQUAL"),
           "<": ("=", "LESS_EQUAL", "LESS"), ">": ("=", "GREATER_EQUAL", "GREATER")}
    ONE = {"(": "LEFT_PAREN", ")": "RIGHT_PAREN", "[": "LEFT_BRACKET", "]": "RIGHT_BRACKET",
           "{": "LEFT_BRACE", "}": "RIGHT_BRACE", ",": "COMMA", "+": "PLUS", "-": "MINUS",
           "%": "MODULO", "~": "TILDE", ":": "COLON", "|": "PIPE"}

    def isd(j):
        return j < n and code[j].isdigit()

    while i < n:
        ch = code[i]
        start = i
        done = False
        for w in (" ", "\n", "\t", "\r"):
            if ch == w:
                i += 1
                done = True
                break
        if done:
            continue
        for k, kind in ONE.items():
            if ch == k:
                out.append((kind, start, start + 1))
                i += 1
                done = True
                break
        if done:
            continue
        for k, (nxt, two, one) in TWO.items():
            if ch == k:
                if i + 1 < n and code[i + 1] == nxt:
                    out.append((two, start, start + 2))
                    i += 2
                else:
                    out.append((one, start, start + 1))
                    i += 1
                done = True
                break
        if done:
            continue
        if ch == "'" or ch == '"':
            q = "'" if ch == "'" else '"'  # a string is closed by a quotation mark of its own kind
            j = i + 1
            while j < n and not code[j] == q:
                j += 1
            if j >= n:
                raise RefReject("unterminated string")
            out.append(("STRING", start, j + 1))
            i = j + 1
            continue
        if ch == "`":
            j = i + 1
            while j < n and not code[j] == "`":
                j += 1
            if j >= n:
                raise RefReject("unterminated back-quote")
            out.append(("BQNAME", start, j + 1))
            i = j + 1
            continue
        if ch == ".":
            if isd(i + 1):
                j = i + 1
                while isd(j):
                    j += 1
                out.append(("NUMBER", start, j))
                i = j
            else:
                out.append(("PERIOD", start, start + 1))
                i += 1
            continue
        if ch.isdigit():
            j = i + 1
            while isd(j):
                j += 1
            if j < n and code[j] == "." and isd(j + 1):
                j += 1
                while isd(j):
                    j += 1
            out.append(("NUMBER", start, j))
            i = j
            continue
        if ch.isalpha():
            j = i + 1
            while j < n and (code[j].isalnum() or code[j] == "." or code[j] == "_"):
                j += 1
            out.append(("IDENT?", start, j))
            i = j
            continue
        raise RefReject("unexpected character")
    if sum(1 for t in out if t[0] == "TILDE") > 1:
        raise RefReject("more than one ~")
    return out


def h2(c, l, alphabet):
    from formulae.scanner import Scanner

    if isinstance(alphabet, dict):
        # a concrete prefix (one-element domains) followed by l symbolic characters
        pre = alphabet["prefix"]
        chars = [symx.SymKind(f"p{i}", [ch], c) for i, ch in enumerate(pre)] + [symx.SymKind(f"c{i}", alphabet["chars"], c) for i in range(l)]
    else:
        chars = [symx.SymKind(f"c{i}", alphabet, c) for i in range(l)]
    code = SymStr(chars)
    try:
        toks = Scanner(code).scan()
        real_ok = True
    except symx.PathEnd:
        raise
    except Exception as e:  # noqa
        real_ok = False
        toks = f"{type(e).__name__}"
    try:
        ref = ref_lex(code)
        ref_ok = True
    except RefReject as e:
        ref_ok = False
        ref = str(e)
    if not real_ok:
        c.reach("real_rejects")
        if ref_ok:
            # the scanner may refuse more than the reference (either rejected or ...), but the
            # documented tokens must all be scannable: refusing a reference-valid string is a
            # violation of "interpreted exactly"?  No: rejection is always allowed by C01.
            c.prove(True, "string refused by the scanner (allowed)")
        else:
            c.prove(True, "non-lexable string refused")
        return
    c.reach("real_accepts")
    problem = None
    if not ref_ok:
        problem = f"accepted a string the reference refuses ({ref})"
    else:
        # strip implicit intercept: exactly one NUMBER(1) PLUS pair right after '~' or at start
        body = list(toks)
        if body[-1].kind != "EOF":
            problem = "no EOF token"
        body = body[:-1]
        tpos = [i for i, t in enumerate(ref) if t[0] == "TILDE"]
        ins = (tpos[0] + 1) if tpos else 0
        pair = body[ins : ins + 2]
        if (
            len(pair) != 2
            or pair[0].kind != "NUMBER" or pair[0].literal != 1 or isinstance(pair[0].lexeme, SymStr)
            or pair[1].kind != "PLUS" or isinstance(pair[1].lexeme, SymStr)
        ):
            problem = "implicit '1 +' not inserted exactly after '~' / at the start"
        else:
            body = body[:ins] + body[ins + 2 :]
            if len(body) != len(ref):
                problem = f"token count {len(body)} != reference {len(ref)}"
            else:
                for t, (kind, a, b) in zip(body, ref):
                    lex = t.lexeme
                    if not isinstance(lex, SymStr) or lex.span() != (a, b):
                        problem = f"token span {getattr(lex, 'span', lambda: lex)()} != reference {(a, b)}"
                        break
                    if kind == "IDENT?":
                        text = lex.realise()
                        kind = "PYTHON_LITERAL" if text in ("True", "False", "None") else "IDENTIFIER"
                        if kind == "PYTHON_LITERAL" and t.literal is not eval(text):  # noqa
                            problem = "python literal value"
                            break
                    if t.kind != kind:
                        problem = f"token kind {t.kind} != reference {kind}"
                        break
                    if kind == "NUMBER":
                        text = lex.realise()
                        want = float(text) if "." in text else int(text)
                        if t.literal != want or type(t.literal) is not type(want):
                            problem = f"number literal {t.literal!r} != {want!r}"
                            break
                    if kind == "STRING":
                        lit = t.literal
                        if not isinstance(lit, SymStr) or lit.span() != (a + 1, b - 1):
                            problem = "string literal is not the text between the quotes"
                            break
    if problem is None:
        c.prove(True, "scan == reference lexing (kinds, spans, literals, implicit intercept)")
        return
    text = code.realise()
    c.stats.obligations += 1
    c.stats.violated += 1
    c.violations.append({"label": "scanner: " + problem, "info": {"text": text, "l": l}, "model": {}})


# ---------------------------------------------------------------------------------------------
# concrete replay (plain API, no symbolic machinery)
# ---------------------------------------------------------------------------------------------
def replay_h1(info):
    """returns (reproduced, detail)"""
    kinds = info["kinds"]
    verdict, ast, toks = concrete_verdict(kinds)
    if verdict[0] != "accept" or not verdict[2]:
        return False, f"plain run refuses the sentence: {verdict}"
    ctoks = concrete_tokens(kinds)
    try:
        ref = refparse.ref_parse(ctoks)
        ref_ok = True
    except RefReject as e:
        ref, ref_ok = str(e), False
    idx = {id(t): i for i, t in enumerate(toks)}

    def pos_c(x):
        if id(x) in idx:
            return idx[id(x)]
        for i, t in enumerate(toks):
            if t.kind in ("STRING",) and x is t.literal:
                return i
            if t.kind in ("NUMBER", "PYTHON_LITERAL") and x is t.literal:
                pass
        return None

    # canonical tree of the concrete AST: positions recovered by identity of Token objects;
    # literal values are compared through their token's position by re-walking in order
    real = canon_concrete(ast, toks)
    if info.get("h3"):
        try:
            same = describe_model(info["text"]) == describe_model(info["alt"])
        except Exception as e:  # noqa
            return False, f"plain run refuses: {type(e).__name__}"
        return same, f"model_description({info['text']!r}) == model_description({info['alt']!r}): token {info['position']} is ignored"
    if "wrapped" in info:
        a, b = info["wrapped"]
        from formulae.parser import Parser
        from formulae.token import Token

        new = toks[:a] + [Token("LEFT_PAREN", "(")] + toks[a : b + 1] + [Token("RIGHT_PAREN", ")")] + toks[b + 1 :]
        try:
            p = Parser(new)
            ast2 = p.parse()
            real2 = canon_concrete(ast2, toks)
            same = real2 == ref and p.tokens[p.current].kind == "EOF"
        except Exception as e:  # noqa
            return True, f"parenthesised variant raises {type(e).__name__}"
        return (not same), f"parenthesised tree {real2} vs {ref}"
    cursor_ok = verdict[1] == len(kinds)
    if not cursor_ok:
        return True, f"accepted with cursor at {verdict[1]} of {len(kinds)} tokens: '{spell(kinds)}'"
    if not ref_ok:
        return True, f"accepted although not a sentence ({ref}): '{spell(kinds)}'"
    if real != ref:
        return True, f"tree {real} != reference {ref}"
    return False, "plain run agrees with the reference"


def canon_concrete(ast, toks):
    """canonical tree for a concrete AST; literal leaves are matched to token positions in
    source order (literals appear in the AST in source order)."""
    idx = {id(t): i for i, t in enumerate(toks)}
    lit_positions = [i for i, t in enumerate(toks) if t.kind in ("NUMBER", "STRING", "PYTHON_LITERAL")]
    used = set()

    class P:
        pass

    def pos_c(x):
        if id(x) in idx:
            return idx[id(x)]
        return None

    def walk(node):
        name = type(node).__name__
        if name == "Grouping":
            return walk(node.expression)
        if name == "Binary":
            l = walk(node.left)
            r = walk(node.right)
            return ("bin", pos_c(node.operator), l, r)
        if name == "Unary":
            return ("un", pos_c(node.operator), walk(node.right))
        if name == "Call":
            cal = walk(node.callee)
            return ("call", cal, tuple(walk(a) for a in node.args))
        if name == "Variable":
            p = pos_c(node.name)
            if p is None and getattr(node.name, "lexeme", None) == "I":
                return ("I",)
            lvl = node.level
            if lvl is None:
                return ("var", p, None)
            if type(lvl).__name__ == "Literal":
                # level token is two positions after the identifier
                return ("var", p, p + 2)
            return ("var", p, ("weird", walk(lvl)))
        if name == "QuotedName":
            return ("bq", pos_c(node.expression))
        if name == "Literal":
            for i in lit_positions:
                if i not in used and (toks[i].literal is node.value or toks[i].literal == node.value):
                    used.add(i)
                    return ("lit", i)
            return ("lit", None)
        if name == "Assign":
            return ("assign", walk(node.name), walk(node.value))
        return ("unknown", name)

    return walk(ast)


def replay_h2(info):
    from formulae.scanner import Scanner

    text = info["text"]
    try:
        toks = Scanner(text).scan()
    except Exception as e:  # noqa
        return False, f"plain run refuses: {type(e).__name__}"
    try:
        ref = ref_lex(text)
    except RefReject as e:
        return True, f"accepted {text!r} although the reference refuses it ({e})"
    body = toks[:-1]
    tpos = [i for i, t in enumerate(ref) if t[0] == "TILDE"]
    ins = (tpos[0] + 1) if tpos else 0
    pair = body[ins : ins + 2]
    if len(pair) != 2 or (pair[0].kind, pair[0].lexeme, pair[1].kind) != ("NUMBER", "1", "PLUS"):
        return True, "implicit intercept misplaced"
    body = body[:ins] + body[ins + 2 :]
    want = []
    for kind, a, b in ref:
        lex = text[a:b]
        if kind == "IDENT?":
            kind = "PYTHON_LITERAL" if lex in ("True", "False", "None") else "IDENTIFIER"
        want.append((kind, lex))
    got = [(t.kind, t.lexeme) for t in body]
    if got != want:
        return True, f"tokens {got} != reference {want}"
    for t, (kind, a, b) in zip(body, ref):
        if kind == "NUMBER":
            w = float(text[a:b]) if "." in text[a:b] else int(text[a:b])
            if t.literal != w or type(t.literal) is not type(w):
                return True, f"literal {t.literal!r} != {w!r}"
        if kind == "STRING" and t.literal != text[a + 1 : b - 1]:
            return True, "string literal"
    return False, "plain run agrees with the reference"


# ---------------------------------------------------------------------------------------------
# driver
# ---------------------------------------------------------------------------------------------
TOKEN_PAIRS = [
    # two accepted formulas that differ in ONE token must not give the same design (or one of them is refused)
    ("y ~ g[a]", "y ~ g[zz]"), ("y ~ x:g[a]", "y ~ x:g[b]"), ("y ~ (1|g[a])", "y ~ (1|g[b])"), ("y ~ (x|g[a])", "y ~ (x|g[zz])"), ("g[a] ~ x", "g[b] ~ x"),
    ("y ~ less(x, by=1, by=2)", "y ~ less(x, by=5, by=2)"), ("y ~ less(x, 1)", "y ~ less(x, 2)"), ("y ~ less(x, by=z)", "y ~ less(x, by=x)"),
    ("y ~ less(x, '1')", 'y ~ less(x, "2")'), ("y ~ x + (1|g)", "y ~ x + (z|g)"), ("y ~ {x + 1}", "y ~ {x + 2}"), ("y ~ I(x ** 2)", "y ~ I(x ** 3)"),
]


def concrete_token_pairs(rep):
    """the whole pipeline (not only the parser) ignores no token: formulas that differ in one token are
    refused or give designs that differ (plain API on one concrete frame)"""
    import numpy as np
    import pandas as pd
    from formulae import design_matrices

    df = pd.DataFrame({"y": [1.0, 2.0, 0.5, 4.0, 3.0, 2.5], "x": [1.0, 2.0, 3.0, 5.0, 8.0, 13.0], "z": [0.5, 0.25, 2.0, 1.0, 4.0, 3.0], "g": list("abcabc")})

    def less(a, by):
        return a - float(by) if not hasattr(by, "__len__") or isinstance(by, str) else a - by

    def snap(f):
        try:
            dm = design_matrices(f, df, extra_namespace={"less": less})
        except Exception as e:  # noqa
            return ("refused", type(e).__name__)
        out = []
        for m in (dm.response, dm.common, dm.group):
            out.append(None if m is None else np.asarray(m.design_matrix, dtype=float).round(12).tolist())
        return ("ok", out, None if dm.common is None else [str(c) for c in dm.common.as_dataframe().columns])

    n = 0
    for a, b in TOKEN_PAIRS:
        n += 1
        sa, sb = snap(a), snap(b)
        if sa[0] == "ok" and sb[0] == "ok" and sa[1] == sb[1]:
            rep.violations.append({"label": "a token is ignored by the pipeline", "signature": {"harness": "pairs", "what": "a token is ignored by the pipeline", "formulas": [a, b]},
                                   "replay": {"formulas": [a, b]}, "reproduced": True, "detail": f"{a!r} and {b!r} are both accepted and give the same matrices"})
    rep.extra["token_pairs"] = n


def _work(job):
    core.setup_paths()
    core.silence_logging()
    kind = job["kind"]
    out = {"job": {k: v for k, v in job.items() if k != "prefix"}, "violations": [], "error": None}
    try:
        if kind == "h1":
            h1.LazyTok = make_lazy_token_class()
            c = symx.explore(h1, job["n"], job["parens"], job.get("alphabet"), prefix=job.get("prefix"), max_paths=BUDGET, timeout_ms=20000)
        else:
            c = symx.explore(h2, job["l"], job["alphabet"], prefix=job.get("prefix"), max_paths=BUDGET, timeout_ms=20000)
        out["stats"] = c.stats.as_dict()
        out["more"] = [dict(job, prefix=p) for p in c.leftover]
        for v in c.violations:
            rep, detail = (replay_h1 if kind == "h1" else replay_h2)(v["info"])
            sig = {"harness": kind, "what": v["label"]}
            if kind == "h1":
                sig["sentence"] = " ".join(v["info"]["kinds"])
                if v["info"].get("h3"):
                    sig["position"] = v["info"]["position"]
                if "wrapped" in v["info"]:
                    sig["wrapped"] = v["info"]["wrapped"]
            else:
                sig["text"] = v["info"]["text"]
            out["violations"].append(
                {"label": v["label"], "signature": sig, "replay": v["info"], "reproduced": rep, "detail": detail}
            )
    except symx.Inconclusive as e:
        out["error"] = f"inconclusive: {e}"
        out["stats"] = {}
    return out


BUDGET = 1500
h1.NM = 5


def run(tier, seed):
    rep = core.Report(ID, tier, seed)
    rep.functions = [
        "formulae.parser.Parser.* (parse, expression, assignment, tilde, random_effect, comparison, addition, multiplication, interaction, multiple_interaction, unary, call, finishcall, primary, match, check, consume, advance, peek, at_end)",
        "formulae.scanner.Scanner.* (scan, scan_token, number, floatnum, identifier, char, backquote, match, peek, peek_next, advance, add_token)",
        "formulae.expr.*", "formulae.token.Token", "formulae.resolver.Resolver (only to decide rejection of candidate counterexamples)",
    ]
    if tier == "quick":
        N, NP, L_full, L_multi, NS_ops, NS_calls, NS_cmp = 5, 4, 3, 4, 5, 7, 7
        NCH, NCH3 = 10, 6
    else:
        N, NP, L_full, L_multi, NS_ops, NS_calls, NS_cmp = 6, 5, 4, 5, 7, 9, 8
        NCH, NCH3 = 13, 8
    NS_cmp = int(os.environ.get("C01_NS_CMP", NS_cmp))
    NS_ops = int(os.environ.get("C01_NS_OPS", NS_ops))
    NS_calls = int(os.environ.get("C01_NS_CALLS", NS_calls))
    N = int(os.environ.get("C01_N", N))
    h1.NM = min(N, 6)
    L_full = int(os.environ.get("C01_L", L_full))
    L_multi = int(os.environ.get("C01_LM", L_multi))
    rep.bounds = {
        "H1 parser: sentence length (tokens, excluding EOF)": f"0..{N} over all {len(KINDS)} token kinds (kinds are solver variables)",
        "H1 redundant-parentheses re-parse": f"sentences up to {NP} tokens",
        "H1 slices (restricted alphabets, longer sentences)": f"operator slice {SLICES['ops']} up to {NS_ops} tokens; call slice {SLICES['calls']} up to {NS_calls} tokens; comparison-in-braces slice {SLICES['cmp']} up to {NS_cmp} tokens; flat chains name (op name)^k with op from {{+,-}}, {{+,:}}, {{*,/}}, {{-,*}} for k <= {NCH} and from {{+,-,:}} for k <= {NCH3}",
        "H2 scanner: string length, full alphabet": f"1..{L_full} over {len(ALPHABET_FULL)} characters {''.join(ALPHABET_FULL)!r}",
        "H2 scanner: string length, multi-character-token alphabet": f"1..{L_multi} over {''.join(ALPHABET_MULTI)!r}",
        "H2 scanner: keyword-literal slice": "all strings of length 4 over 'TtRrUuEeNnOo'" + ("" if tier == "quick" else " and of length 5 over 'FfAaLlSsEe'"),
        "H2 scanner: long numeric literals": "four concrete digit prefixes of 14-20 characters followed by two characters over '0123456789.'",
    }
    rep.outside = [
        "sentences longer than the stated bounds (the 'unbounded depth' part of the quantifier is not reachable by a bounded technique)",
        "characters outside the alphabet other than the two representatives '#' and 'é'",
        "composition H1∘H2 is argued, not proved: model_description = Resolver∘Parser∘Scanner",
    ]
    rep.assumptions = [
        "reference grammar = oracles/refparse.py written from the documented precedence table; reference lexer = ref_lex in this file",
        "a sentence counts as rejected when Parser.parse or Resolver.resolve raises",
        "token values do not influence parsing beyond str / non-str literal type (placeholders carry positions)",
    ]
    rep.rule = "one case = one feasible path of the real parser/scanner on symbolic tokens/characters (a class of concrete sentences); non-trivial = accepted by the implementation"
    jobs = []
    for n in range(N, -1, -1):
        jobs.append({"kind": "h1", "n": n, "parens": n <= NP})
    for alph, lo, hi in (("ops", N + 1, NS_ops), ("calls", N + 1, NS_calls), ("cmp", N + 1, NS_cmp)):
        for n in range(hi, lo - 1, -1):
            jobs.append({"kind": "h1", "n": n, "parens": False, "alphabet": alph})
    for alph in ("chain_pm", "chain_pc", "chain_ss", "chain_ms"):
        for k in range(NCH, 2, -1):
            jobs.append({"kind": "h1", "n": 2 * k + 1, "parens": False, "alphabet": alph})
    for k in range(NCH3, 2, -1):
        jobs.append({"kind": "h1", "n": 2 * k + 1, "parens": False, "alphabet": "chain_pmc"})
    for l in range(L_multi, L_full, -1):
        jobs.append({"kind": "h2", "l": l, "alphabet": ALPHABET_MULTI})
    for l in range(L_full, 0, -1):
        jobs.append({"kind": "h2", "l": l, "alphabet": ALPHABET_FULL})
    jobs.append({"kind": "h2", "l": 4, "alphabet": ALPHABET_KW, "tag": "kw"})
    # long numeric literals: 14-17 concrete digits followed by two symbolic characters
    for pre in ("90071992547409", "17000000001234567", "0.1234567890123", "12345678901234567890"):
        jobs.append({"kind": "h2", "l": 2, "alphabet": {"prefix": pre, "chars": list("0123456789.")}, "tag": "long-number:" + pre})
    if tier != "quick":
        jobs.append({"kind": "h2", "l": 5, "alphabet": ALPHABET_KW5, "tag": "kw5"})
    results = core.run_tree(_work, jobs)
    per = {}
    for r in results:
        if r["error"]:
            rep.inconclusive.append(r["error"])
        rep.add_stats(r.get("stats", {}))
        key = (r["job"]["kind"] + (":" + r["job"]["tag"] if r["job"].get("tag") else "") + (":" + r["job"]["alphabet"] if r["job"].get("alphabet") and r["job"]["kind"] == "h1" and isinstance(r["job"].get("alphabet"), str) else ""), r["job"].get("n", r["job"].get("l")))
        per[key] = per.get(key, 0) + r.get("stats", {}).get("paths", 0)
        for v in r["violations"]:
            rep.violations.append(v)
            rep.replayed += 1
    rep.cases = int(rep.stats.get("paths", 0))
    rep.nontrivial = int(rep.reach.get("real_accepts", 0))
    rep.extra["paths_per_harness_and_length"] = {f"{k[0]}:{k[1]}": v for k, v in sorted(per.items())}
    rep.samples = [
        {"harness": "H1", "example_path": "k0=IDENTIFIER k1 in {PLUS,MINUS} k2=IDENTIFIER -> real tree == ref tree ('bin',1,('var',0),('var',2))"},
        {"harness": "H2", "example_path": "c0 isalpha, c1 in {alnum . _}, c2='(' -> tokens IDENTIFIER[0:2] LEFT_PAREN[2:3]"},
    ]
    # vacuity: accepted sentences must have been reached, and obligations discharged
    if rep.nontrivial == 0:
        rep.inconclusive.append("vacuous: no accepted sentence was reached")
    concrete_token_pairs(rep)
    return core.finish(rep)


def replay_file(v):
    if v["signature"].get("harness") == "pairs":
        rep = core.Report(ID, "quick", 0)
        a, b = v["replay"]["formulas"]
        global TOKEN_PAIRS
        TOKEN_PAIRS = [(a, b)]
        concrete_token_pairs(rep)
        return bool(rep.violations), (rep.violations[0]["detail"] if rep.violations else "the two formulas are refused or give different designs")
    return (replay_h1 if v["signature"]["harness"] == "h1" else replay_h2)(v["replay"])
