"""C06 -- evaluating new data reproduces the training encoding.

Training frame: complete factorial of the categorical level sets, numeric cells z3 reals.
New frames: row multisets of the training frame (singles, pairs with repetition, subsets that
lack a level, the whole frame reversed).  Obligation: evaluate_new_data(rows).design_matrix ==
training design_matrix[rows] as z3 terms (a re-estimated mean/std/level set gives a different
term and a model), labels/slices unchanged.
"""
import numpy as np
import pandas as pd

from vf import core, gen, pipe, symx

ID = "C06"
LV = [2, 3, 1]


class Shift:
    """user-defined stateful transform (x minus the first training value)"""

    __stateful_transform__ = True

    def __init__(self):
        self.params_set = False
        self.first = None

    def __call__(self, x):
        if not self.params_set:
            self.first = x.iloc[0] if hasattr(x, "iloc") else x[0]
            self.params_set = True
        return x - self.first


def formulas(tier):
    f = [
        "y ~ x", "y ~ x + f", "y ~ f:x", "y ~ f + g + f:g", "y ~ 0 + f", "y ~ x:z + f",
        "y ~ center(x)", "y ~ scale(x)", "y ~ standardize(x) + f", "y ~ center(x) + scale(z)",
        "y ~ poly(x, 2, raw=True)", "y ~ poly(x, 3, raw=True):f", "y ~ center(scale(x))", "y ~ scale(center(x)) + z",
        "y ~ scale(x):f", "y ~ f + center(x):f", "y ~ shift(x) + f", "y ~ shift(center(x))", "y ~ I(x * z) + center(x):scale(z)",
        "y ~ C(k)", "y ~ 0 + C(k)", "y ~ C(k, Sum)", "y ~ T(k, 2)", "y ~ S(k, 3)", "y ~ C(k, Treatment(3))", "y ~ x:C(k)",
        "y ~ C(k, levels=lv)", "y ~ 0 + C(k, levels=lv) + x", "y ~ C(g)", "y ~ C(g, Sum):x", "y ~ g", "y ~ g:f",
        "y ~ x + (1|g)", "y ~ x + (x|g)", "y ~ (center(x)|g)", "y ~ (f|g)", "y ~ (0 + f|g)", "y ~ (x|g:f)", "y ~ (scale(x)|g) + (1|f)",
        "y ~ (1|C(k))", "y ~ (x|C(k))",
        "y ~ binary(f, 'a') + x", "y ~ binary(g) + x", "y ~ B(f):x", "y ~ binary(k, 2)", "y ~ binary(k)", "y ~ offset(x) + z",
        # operators that build several terms from one written factor
        "y ~ f/g", "y ~ f/x", "y ~ g/f/x", "y ~ f:(g + x)", "y ~ (f + g)**2", "y ~ 0 + (f + g)**2", "y ~ f*g*x", "y ~ (f + g):x", "y ~ (f + g)*x", "y ~ 0 + f*g", "y ~ center(x)/f", "y ~ (x + f|g) + f/x",
        # several dummy columns written before a multi-column numeric; group terms of two factors interleaved
        "y ~ g:poly(x, 2, raw=True)", "y ~ 0 + f:poly(x, 2, raw=True)", "y ~ (1|g) + (1|h) + (0 + x|g)", "y ~ (x|g + h)", "y ~ (0 + g:poly(x, 2, raw=True)|f)",
        # numeric columns used as grouping factors (ids, years)
        "y ~ (1|k)", "y ~ (x|kb)", "y ~ (1|k:f)", "y ~ (1|kf)",
        # parameters of a stateful transform given through names of the caller (re-bound after training)
        "y ~ less(x, by=z)", "y ~ less(x, by=center(z)):f",
        "y ~ poly(x, deg, raw=True)", "y ~ poly(x, deg, raw=rawflag):f", "y ~ (poly(x, deg, raw=True)|g)",
    ]
    if tier != "quick":
        f += ["y ~ x*f*g", "y ~ center(x)*f", "y ~ scale(x) + scale(z) + scale(x):scale(z)", "y ~ poly(x, 4, raw=True) + poly(z, 2, raw=True)",
              "y ~ (x + z|g)", "y ~ (x|g) + (z|h)", "y ~ C(k, Sum):f", "y ~ (f:x|g)", "y ~ center(x):C(k)", "y ~ h + C(h)", "y ~ T(g, 't'):x"]
    return f


CONCRETE = ["y ~ bs(x, df=4)", "y ~ bs(x, df=5, intercept=True):f", "y ~ bs(x, knots=kn, degree=2)", "y ~ poly(x, 2)", "y ~ poly(x, 3) + f", "y ~ (bs(x, df=3)|g)"]


def cases(tier):
    out = []
    flav = ["str", "cat", "ord"]
    for i, f in enumerate(formulas(tier)):
        for fv in flav:
            out.append((f, fv, False))
    for f in CONCRETE:
        out.append((f, "str", True))
    if tier != "quick":
        from vf.props import c04

        for i, f in enumerate(c04.family_formulas(1)):
            out.append((f, flav[i % 3], False))
    return out


def signature(case, v):
    info = v.get("info") or {}
    sig = {"formula": case[0], "flavour": case[1], "what": v["label"].split(" [")[0]}
    if isinstance(info, dict) and "exc" in info:
        sig["exc"] = info["exc"]
        sig["site"] = info.get("site")
    return sig


def selections(rows, vars_, tier):
    n = len(rows)
    sel = []
    singles = range(n) if tier != "quick" else sorted(set([0, 1, n // 2, n - 1]))
    for i in singles:
        sel.append(("single", [i]))
    sel.append(("pair+repeat", [n - 1, 0, n - 1]))
    sel.append(("reversed", list(range(n))[::-1]))
    # subsets lacking one level of each categorical variable
    for v in vars_:
        if v in gen.LEVELS:
            for lvl in gen.LEVELS[v][: (1 if tier == "quick" else None)]:
                idx = [i for i, r in enumerate(rows) if r[v] != lvl]
                if idx and len(idx) < n:
                    sel.append((f"without {v}={lvl}", idx))
    return sel


def harness(env, case):
    from formulae import design_matrices

    formula, flavour, concrete = case
    tier = harness.tier
    vars_ = gen.used_vars(formula)
    df, rows = gen.build_frame(env, vars_, flavour, "scramble", concrete=concrete, min_rows=8 if concrete else 5, reps=4 if concrete else 1)
    ns = {"lv": list(LV), "shift": Shift, "deg": 2, "rawflag": True, "less": (lambda a, by: a - by)}
    if concrete and "x" in df:
        lo, hi = float(np.min(df["x"])), float(np.max(df["x"]))
        ns["kn"] = [lo + 0.3 * (hi - lo), lo + 0.65 * (hi - lo)]
    try:
        with env.running(not concrete):
            dm = design_matrices(formula, df, extra_namespace=ns)
    except symx.PathEnd:
        raise
    except Exception as e:
        env.fail("training design cannot be built", {"exc": type(e).__name__, "site": core.repo_site(e), "msg": str(e)[:200]})
        return
    # the caller goes on using its own objects: lists handed over by name (levels=lv, knots=kn) are
    # re-ordered / overwritten in place after training -- the design must not follow them
    ns["lv"].reverse()
    ns["lv"].append(4)
    ns["deg"], ns["rawflag"] = 3, False
    if "kn" in ns:
        ns["kn"][0] = ns["kn"][0] + 0.5
    mats = []
    if dm.common is not None:
        mats.append(("common", dm.common))
    if dm.group is not None:
        mats.append(("group", dm.group))
    for what, M in mats:
        X = np.array(M.design_matrix, copy=True)  # a snapshot, not a view
        slices0 = dict(M.slices)
        for tag, idx in selections(rows, vars_, tier):
            nd = df.iloc[idx]
            try:
                with env.running(not concrete):
                    new = M.evaluate_new_data(nd)
            except symx.PathEnd:
                raise
            except symx.Inconclusive:
                raise
            except Exception as e:
                env.fail(f"{what}: evaluate_new_data raises on rows of the training frame ({tag.split('=')[0]})",
                         {"exc": type(e).__name__, "site": core.repo_site(e), "msg": str(e)[:200], "rows": idx})
                continue
            env.prove_equal(new.design_matrix, X[idx], f"{what}: new rows == training rows ({tag.split(' ')[0]})", {"rows": idx})
            env.prove(dict(new.slices) == slices0, f"{what}: slices unchanged")
        # training matrix itself untouched by the evaluations
        env.prove_equal(M.design_matrix, X, f"{what}: training matrix unchanged")
        # ... and a result is the caller's to overwrite, whichever frame object it came from (the caller's own
        # frame or the one the design keeps)
        for src, frame in (("caller frame", df), ("the frame the design keeps", getattr(M, "data", None))):
            if frame is None or len(frame) != len(df):
                continue
            try:
                with env.running(not concrete):
                    again = M.evaluate_new_data(frame)
            except symx.PathEnd:
                raise
            except Exception:  # noqa -- evaluation failures are reported above
                continue
            A = again.design_matrix
            if isinstance(A, np.ndarray) and A.size and A.flags.writeable:
                A[...] = 0
                env.prove_equal(M.design_matrix, X, f"{what}: training matrix unchanged after the caller overwrote a result")
    if concrete and "bs(" in formula:
        # Python-side spline state: fitted knots survive evaluate_new_data
        for term in list(dm.common.terms.values() if dm.common else []) + [t.expr for t in (dm.group.terms.values() if dm.group else [])]:
            for comp in getattr(term, "components", []):
                st = getattr(getattr(comp, "call", None), "stateful_transform", None)
                if st is not None and hasattr(st, "_knots"):
                    env.prove(bool(st.params_set), "bs: params_set stays true")


harness.tier = "quick"


def _set_tier(t):
    harness.tier = t


def run(tier, seed):
    harness.tier = tier
    rep = core.Report(ID, tier, seed)
    rep.functions = [
        "formulae.matrices.CommonEffectsMatrix/GroupEffectsMatrix.evaluate_new_data", "formulae.terms.terms.Term/GroupSpecificTerm.eval_new_data",
        "formulae.terms.variable.Variable.eval_new_data*", "formulae.terms.call.Call.eval_new_data*", "formulae.terms.call_resolver.LazyCall.eval (stateful_transform)",
        "formulae.transforms.Center/Scale/Polynomial(raw)/I/C/T/S/binary/offset, user-registered stateful transform", "formulae.categorical.CategoricalBox/Treatment/Sum",
    ]
    cs = cases(tier)
    rep.bounds = {"formulas": len(formulas(tier)) + len(CONCRETE), "cases (formula x flavour)": len(cs),
                  "new frames per design": "single rows, a pair with repetition, the whole frame reversed, every subset lacking one level of a used categorical (quick: 4 singles, first level only)",
                  "training frame": "complete factorial (f:2, g:3, h:4, k:3 levels), scrambled row order, numeric cells z3 reals"}
    rep.outside = ["bs()/poly(orthogonal) values go through FITPACK / a float work buffer: those formulas run on concrete float data (exact float row identity + params_set), the solver only compares constants there",
                   "floating point; zero variance (recorded assumption std != 0)"]
    rep.stubs = pipe.STUBS
    rep.assumptions = ["std != 0 for scale (definedness)", "row i of the design depends only on row i of the data once levels/parameters are fixed is NOT assumed: it is what is proved"]
    rep.rule = "one case = (formula, flavour); each runs the real pipeline once and evaluates every listed row multiset; non-trivial = training design built"
    import os
    os.environ["C06_TIER"] = tier
    pipe.run_cases(rep, "vf.props.c06", "harness", cs)
    rep.nontrivial = rep.cases
    if rep.cases == 0:
        rep.inconclusive.append("vacuous")
    return core.finish(rep)


import os as _os

harness.tier = _os.environ.get("C06_TIER", "quick")
