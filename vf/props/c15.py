"""C15 -- response handling.  Numeric cells (response, predictors) are z3 reals, counts for
prop() are z3 integers (the validation s <= t forks into the accepted and the refused branch)."""
import numpy as np
import pandas as pd
import z3

from vf import core, gen, pipe, symx

ID = "C15"
RHS = ["x", "x + f", "f:g", "x + (x|g)", "0 + f + x:f", "x - 1", "x + f + 0", "f + (1|g) - 1", "-1 + x"]
# (response text, kind)
RESP = [
    ("y", "numeric"), ("f", "cat"), ("g", "cat"), ("h", "cat"), ("g[t]", "level:g:t"), ("g['t']", "level:g:t"), ('f["a"]', "level:f:a"), ("h[o]", "level:h:o"),
    ("prop(s, n)", "prop:col"), ("prop(s, 7)", "prop:const"), ("p(s, n)", "prop:col"), ("proportion(s, n)", "prop:col"),
    ("inc['>50K']", "level:inc:>50K"), ('inc["n/a"]', "level:inc:n/a"), ("inc['St. Louis']", "level:inc:St. Louis"), ("inc", "cat"),
    ("prop(s, n)", "prop:col:big"),
    ("y['1']", "refused"), ("y[a]", "refused"),  # a level needs a categorical variable
    ("kc['3']", "level:kc:3"), ('kc["1"]', "level:kc:1"), ("kc", "cat"),  # a pandas categorical whose categories are numbers
    ("y:z", "refused"), ("y + z", "refused"), ("f:g", "refused"), ("y*z", "refused"), ("g[t] + g[s]", "refused"), ("g + g[t]", "refused"), ("g[t]:g[u]", "refused"), (None, "none"),
]


def cases(tier):
    out = []
    for ri, (r, kind) in enumerate(RESP):
        for hi, rhs in enumerate(RHS):
            flavs = ["str", "cat", "ord"] if kind.startswith(("cat", "level")) else ["str"]
            for fv in flavs:
                if tier == "quick" and (ri + hi + flavs.index(fv)) % 2 == 1 and kind not in ("none",):
                    continue
                out.append((ri, rhs, fv))
    return out


def signature(case, v):
    info = v.get("info") or {}
    sig = {"response": RESP[case[0]][0], "rhs": case[1], "flavour": case[2], "what": v["label"].split(" [")[0]}
    if isinstance(info, dict) and "exc" in info:
        sig["exc"], sig["site"] = info["exc"], info.get("site")
    return sig


def pm(dm):
    return {k: np.asarray(getattr(dm, k).design_matrix) for k in ("common", "group") if getattr(dm, k) is not None}


def harness(env, case):
    from formulae import design_matrices

    ri, rhs, flavour = case
    rtext, kind = RESP[ri]
    formula = rhs if rtext is None else f"{rtext} ~ {rhs}"
    vars_ = [v for v in gen.used_vars(formula.replace("n/a", "")) if v not in ("s", "n")]
    big = kind.endswith(":big")
    if big:
        # more than 256 rows: the first two rows symbolic, the others concrete counts (bounds the forks)
        kind = kind[: -len(":big")]
        if any(v in gen.LEVELS for v in vars_):
            return
    df, rows = gen.build_frame(env, vars_, flavour, "scramble", min_rows=260 if big else 4)
    if "kc" in df:
        df["kc"] = pd.Categorical(list(df["kc"]), categories=sorted(gen.LEVELS["kc"]), ordered=(flavour == "ord"))
    n = len(df)
    if kind.startswith("prop"):
        # counts are integer-sorted symbols; only the first rows symbolic to bound the forks
        s = env.column("s", n, integer=True)
        t = env.column("n", n, integer=True)
        if big:
            s = np.array(list(s[:2]) + [i % 3 for i in range(2, n)], dtype=object if env.mode == "sym" else s.dtype)
            t = np.array(list(t[:2]) + [3 + i % 5 for i in range(2, n)], dtype=object if env.mode == "sym" else t.dtype)
        df["s"] = pd.Series(s, dtype=object) if env.mode == "sym" else s
        df["n"] = pd.Series(t, dtype=object) if env.mode == "sym" else t
    try:
        with env.running():
            dm = design_matrices(formula, df)
        raised = None
    except symx.PathEnd:
        raise
    except symx.Inconclusive:
        raise
    except Exception as e:
        dm, raised = None, e
    if kind == "refused":
        env.prove(raised is not None, "a response that is not one valid term is refused (several terms, a level on a numeric variable)")
        return
    if kind.startswith("prop") and raised is not None:
        # legitimate refusal iff some successes exceed trials on this path
        if isinstance(raised, ValueError) and "greater" in str(raised):
            bad = z3.Or([symx.to_z3(df["s"].values[i]) > symx.to_z3(df["n"].values[i] if kind == "prop:col" else 7) for i in range(n)]) if env.mode == "sym" else any(df["s"].values[i] > (df["n"].values[i] if kind == "prop:col" else 7) for i in range(n))
            env.prove(bad, "prop refuses only when successes exceed trials")
            return
    if raised is not None:
        env.fail("design with a valid response cannot be built", {"exc": type(raised).__name__, "site": core.repo_site(raised), "msg": str(raised)[:160]})
        return
    # predictors do not depend on the response
    with env.running():
        dm0 = design_matrices(rhs, df)
    P, P0 = pm(dm), pm(dm0)
    env.prove(sorted(P) == sorted(P0), "same predictor matrices with and without the response")
    for k in P0:
        if k in P:
            env.prove_equal(P[k], P0[k], f"{k} matrix does not depend on the response")
    if kind == "none":
        env.prove(dm.response is None, "no '~': the design has no response")
        return
    if not env.prove(dm.response is not None, "response present"):
        return
    R = np.asarray(dm.response.design_matrix)
    if kind == "numeric":
        env.prove_equal(R, df["y"].values, "numeric response returned unchanged")
        env.prove(dm.response.kind == "numeric", "numeric response kind")
    elif kind == "cat":
        var = rtext
        want_levels = [str(l) for l in gen.level_order(var, flavour)]
        env.prove([str(l) for l in (dm.response.levels or [])] == want_levels, "categorical response: levels in sorted / declared order")
        E = np.array([[1 if str(r[var]) == l else 0 for l in want_levels] for r in rows], dtype=object)
        env.prove_equal(R, E, "categorical response: one indicator column per level")
    elif kind.startswith("level"):
        _, var, lvl = kind.split(":")
        E = np.array([1 if str(r[var]) == lvl else 0 for r in rows], dtype=object)
        env.prove(R.ndim == 1 or R.shape[1] == 1, "y[level]: a single column")
        env.prove_equal(R.reshape(-1), E, "y[level]: 1 exactly where y equals the level")
    elif kind.startswith("prop"):
        trials = df["n"].values if kind == "prop:col" else np.array([7] * n, dtype=object)
        if env.mode == "sym":
            env.prove(z3.And([symx.to_z3(df["s"].values[i]) <= symx.to_z3(trials[i]) for i in range(n)]), "prop accepted: successes do not exceed trials in any row")
        else:
            env.prove(all(df["s"].values[i] <= trials[i] for i in range(n)), "prop accepted: successes do not exceed trials in any row")
        env.prove(R.shape == (n, 2), "prop: two columns")
        if R.shape == (n, 2):
            env.prove_equal(R[:, 0], df["s"].values, "prop: first column = successes")
            env.prove_equal(R[:, 1], trials, "prop: second column = trials")
        env.prove(dm.response.kind == "proportion", "prop response kind")


def concrete_edge_cases(rep):
    """boundaries that need concrete dtypes / shapes: successes of small integer or boolean dtype with
    constant trials, one-row frames, one-level categorical responses (plain API, exact comparison)"""
    from formulae import design_matrices

    def bad(what, detail):
        rep.violations.append({"label": what, "signature": {"what": what, "part": "edge"}, "replay": {"detail": detail}, "reproduced": True, "detail": detail})

    n_checked = 0
    for dtype in ("int8", "int16", "uint8", "int32", "bool"):
        s = np.array([1, 0, 1, 1], dtype=dtype)
        df = pd.DataFrame({"s": s, "x": [0.5, 1.5, 2.5, 3.5]})
        for const in (1, 5, 300):
            try:
                R = np.asarray(design_matrices(f"prop(s, {const}) ~ x", df).response.design_matrix)
            except Exception as e:  # noqa
                bad("prop with constant trials fails on valid small-integer / boolean successes", f"dtype={dtype} const={const}: {type(e).__name__}: {e}")
                continue
            n_checked += 1
            if R.shape != (4, 2) or not (R[:, 0].astype(int) == s.astype(int)).all() or not (R[:, 1].astype(int) == const).all():
                bad("prop: (successes, trials) columns", f"dtype={dtype} const={const}: {R.tolist()}")
    one = pd.DataFrame({"y": [2.5], "x": [1.0], "g": ["a"], "s": [1], "n": [3]})
    three = pd.DataFrame({"y": [2.5, 1.0, 0.5], "x": [1.0, 2.0, 4.0], "g": ["a", "a", "a"]})
    for formula, frame, shape in (("y ~ x", one, (1,)), ("g ~ x", one, (1, 1)), ("g[a] ~ x", one, (1,)), ("prop(s, n) ~ x", one, (1, 2)), ("g ~ x", three, (3, 1))):
        try:
            R = np.asarray(design_matrices(formula, frame).response.design_matrix)
        except Exception as e:  # noqa
            bad("response of a one-row frame / one-level factor cannot be built", f"{formula}: {type(e).__name__}: {e}")
            continue
        n_checked += 1
        if R.shape != shape and R.reshape(-1).shape != shape:
            bad("response has one row per observation and one column per level", f"{formula}: shape {R.shape}, expected {shape}")
        elif R.ndim and R.shape[0] != len(frame):
            bad("response has one row per observation and one column per level", f"{formula}: shape {R.shape}")
        elif R.ndim == 0:
            bad("response has one row per observation and one column per level", f"{formula}: shape {R.shape}")
        elif formula.startswith("g ~") and R.shape != shape:
            bad("response has one row per observation and one column per level", f"{formula}: shape {R.shape}, expected {shape}")
    rep.extra["concrete_edge_cases"] = n_checked


def run(tier, seed):
    rep = core.Report(ID, tier, seed)
    rep.functions = ["formulae.terms.terms.Response/Model.add_response", "formulae.parser.Parser.primary (y[level])", "formulae.resolver.Resolver.visitVariableExpr/visitBinaryExpr(TILDE)",
                     "formulae.terms.variable.Variable.eval_categoric (reference level)", "formulae.matrices.ResponseMatrix.evaluate", "formulae.transforms.proportion/Proportion"]
    cs = cases(tier)
    rep.bounds = {"response forms": [r for r, _ in RESP], "right-hand sides": RHS, "flavours": ["str", "cat", "ord"], "cases": len(cs)}
    rep.outside = ["floats; prop with non-integer counts (C16)"]
    rep.stubs = pipe.STUBS
    rep.assumptions = []
    rep.rule = "one case = (response form, right-hand side, flavour); prop cases fork on successes <= trials per row; non-trivial = response present"
    pipe.run_cases(rep, "vf.props.c15", "harness", cs)
    concrete_edge_cases(rep)
    rep.nontrivial = int(rep.reach.get("response present", 0))
    return core.finish(rep)
