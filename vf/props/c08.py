"""C08 -- row equivariance and independence from irrelevant frame structure.

Two real runs are compared as z3 terms: design(T(data)) == T(design(data)) for row permutations
T, and design(T(data)) == design(data) for index relabelling, column reordering and
added/removed unused columns.  Numeric cells are z3 reals.
"""
import itertools

import numpy as np
import pandas as pd

from vf import core, gen, pipe, symx

ID = "C08"


def _up(col):
    return col.astype(str).str.upper() if hasattr(col, "astype") else np.array([str(v).upper() for v in col])


def _less(x, by):
    return x - by


def formulas(tier):
    f = [
        "y ~ x", "y ~ x + f", "y ~ f:x + g", "y ~ f*g", "y ~ 0 + g + x:g", "y ~ center(x) + f", "y ~ scale(x)", "y ~ scale(x):f + z",
        "y ~ poly(x, 2, raw=True)", "y ~ center(x):center(z)", "y ~ C(k) + x", "y ~ C(g, Sum)", "y ~ (x|g)", "y ~ (1|g) + (0 + f|g)", "y ~ (center(x)|g:f)",
        "f ~ x", "g[t] ~ x + f", "y ~ I(x * z) + binary(f, 'a')", "y ~ x + offset(z)", "y ~ I(x * 2)", "y ~ binary(f, 'a')",
        "y ~ less(x, by=z)", "y ~ center(x=z) + f",  # data columns passed by keyword
        "1", "1 + offset(2)",  # nothing is taken from the frame
        "y ~ x + (1|up(g))", "y ~ up(f):x", "y ~ I(binary(f, 'a') * x)", "y ~ I(B(f, 'a') * center(x)) + g",  # calls used as factors; helpers inside python expressions
    ]
    if tier != "quick":
        f += ["y ~ x*f*g", "y ~ standardize(z):g", "y ~ (x + z|g) + (1|f)", "y ~ T(g, 't') + S(f)", "y ~ h + x:h", "y ~ scale(center(x))", "y ~ (scale(x)|g)", "y ~ C(k, levels=lv):x"]
    return f


# spline bases go through np.percentile / FITPACK: concrete float data, exact float comparison (rows are
# evaluated independently and the knots are order statistics, so permuting rows must not change a bit)
CONCRETE = ["y ~ bs(x, df=4)", "y ~ bs(x, df=6, degree=2) + f", "y ~ (bs(x, df=5)|g)", "y ~ bs(x, df=7, intercept=True):f"]


TRANSFORMS_Q = ["perm:reverse", "perm:rotate", "perm:scramble", "index:shuffled", "index:dup", "index:str", "index:float", "cols:reversed", "unused:nan", "unused:one", "na+index:dup", "unused:duplabel", "unused:removed"]


def cases(tier):
    out = []
    for i, f in enumerate(formulas(tier)):
        for fv in (["str", "cat", "ord"]):
            if tier == "quick" and (i + ["str", "cat", "ord"].index(fv)) % 3 != 0:
                continue
            for tr in TRANSFORMS_Q + (["perm:all4"] if tier != "quick" else []):
                out.append((f, fv, tr))
    for f in CONCRETE:
        for tr in ("perm:reverse", "perm:scramble", "perm:rotate", "index:dup", "cols:reversed"):
            out.append((f, "str", tr))
    if tier != "quick":
        from vf.props import c04

        for i, f in enumerate(c04.family_formulas(3)):
            out.append((f, ("str", "cat", "ord")[i % 3], TRANSFORMS_Q[i % len(TRANSFORMS_Q)]))
    return out


def signature(case, v):
    info = v.get("info") or {}
    sig = {"formula": case[0], "flavour": case[1], "transform": case[2], "what": v["label"].split(" [")[0]}
    if isinstance(info, dict) and "exc" in info:
        sig["exc"], sig["site"] = info["exc"], info.get("site")
    return sig


def perm_of(kind, n):
    if kind == "reverse":
        return [list(range(n))[::-1]]
    if kind == "rotate":
        return [[(i + 1) % n for i in range(n)]]
    if kind == "scramble":
        step = next(s for s in (5, 7, 3, 11, 13) if n % s != 0) if n > 2 else 1
        return [[(i * step + 2) % n for i in range(n)]]
    if kind == "all4":
        return [list(p) + list(range(4, n)) for p in itertools.permutations(range(min(4, n)))][1:]
    raise ValueError(kind)


def fitted(dm):
    """fitted transform parameters of every call component (terms of z3 or floats)"""
    out = []
    terms = []
    if dm.common is not None:
        terms += list(dm.common.terms.values())
    if dm.group is not None:
        terms += [t.expr for t in dm.group.terms.values()]
    for t in terms:
        for comp in getattr(t, "components", []):
            call = getattr(comp, "call", None)
            stack = [call] if call is not None else []
            while stack:
                c = stack.pop()
                st = getattr(c, "stateful_transform", None)
                if st is not None:
                    for a in ("mean", "std", "_knots"):
                        if getattr(st, a, None) is not None:
                            out.append((str(c), a, getattr(st, a)))
                stack += [a for a in getattr(c, "args", []) if hasattr(a, "args")]
    return out


def mats(dm):
    out = {}
    if dm.response is not None:
        out["response"] = np.asarray(dm.response.design_matrix)
    if dm.common is not None:
        out["common"] = np.asarray(dm.common.design_matrix)
    if dm.group is not None:
        out["group"] = np.asarray(dm.group.design_matrix)
    return out


def meta(dm):
    m = {}
    if dm.common is not None:
        m["common_labels"] = [str(c) for c in dm.common.as_dataframe().columns]
        m["common_slices"] = {k: (v.start, v.stop) for k, v in dm.common.slices.items()}
    if dm.group is not None:
        m["group_labels"] = [l for t in dm.group.terms.values() for l in t.labels]
        m["group_slices"] = {k: (v.start, v.stop) for k, v in dm.group.slices.items()}
    if dm.response is not None:
        m["response_levels"] = dm.response.levels
        m["response_kind"] = dm.response.kind
    return m


def harness(env, case):
    from formulae import design_matrices

    formula, flavour, tr = case
    vars_ = gen.used_vars(formula)
    concrete = formula in CONCRETE
    df, rows = gen.build_frame(env, vars_, flavour, "sorted", min_rows=12, concrete=concrete) if concrete else gen.build_frame(env, vars_, flavour, "sorted", min_rows=5)
    if df.shape[1] == 0:
        df = pd.DataFrame({"unused0": [1.5] * 5})  # a formula without variables: the frame only says how many rows there are
    n = len(df)
    ns = {"lv": [2, 3, 1], "less": _less, "up": _up}
    if "z" in df:
        ns["z"] = np.array(list(df["z"].values), dtype=object if env.mode == "sym" else float)  # a same-named object of the caller (rows in the ORIGINAL order): the column wins
    kind, arg = tr.split(":")
    base = df
    if kind == "na+index":
        # a missing value in a used numeric column (rows dropped), then an irrelevant re-index
        col = "x" if "x" in df else None
        if col is None:
            return
        base = df.copy()
        vals = list(base[col].values)
        vals[1] = float("nan")
        base[col] = pd.Series(vals, dtype=object if env.mode == "sym" else float)
    try:
        with env.running(not concrete):
            dm0 = design_matrices(formula, base, extra_namespace=ns)
    except symx.PathEnd:
        raise
    except symx.Inconclusive:
        raise
    except Exception as e:
        if env.mode == "sym":
            env.c.reach(f"no design: {type(e).__name__} at {core.repo_site(e)}")
        return
    M0, meta0, fit0 = mats(dm0), meta(dm0), fitted(dm0)
    variants = []
    if kind == "perm":
        for p in perm_of(arg, n):
            variants.append((base.iloc[p], p))
            variants.append((base.iloc[p].reset_index(drop=True), p))
    elif kind in ("index", "na+index"):
        d2 = base.copy()
        if arg == "shuffled":
            d2.index = [(7 * i + 3) % n + 100 for i in range(n)]
        elif arg == "dup":
            d2.index = [i // 2 for i in range(n)]
        elif arg == "str":
            d2.index = [f"r{(5 * i) % n}" for i in range(n)]
        elif arg == "float":
            d2.index = [1.5 * ((3 * i) % n) for i in range(n)]
        variants.append((d2, None))
    elif kind == "cols":
        variants.append((base[list(base.columns)[::-1]], None))
    elif kind == "unused" and arg == "duplabel":
        # two bookkeeping columns with the same label, as a concat / merge of two tables leaves them
        extra = pd.DataFrame({"rowid": list(range(n))})
        variants.append((pd.concat([extra, base.reset_index(drop=True), extra], axis=1), None))
    elif kind == "unused" and arg == "removed":
        # only the columns the formula mentions (none at all for a formula without variables)
        keep = [c for c in base.columns if c in vars_]
        variants.append((base[keep], None))
    elif kind == "unused":
        d2 = base.copy()
        d2.insert(0, "unused1", [float("nan") if i % 3 == 0 else 1.0 for i in range(n)])
        if arg != "one":
            d2["unused2"] = ["q"] * n
        variants.append((d2, None))
    for d2, p in variants:
        try:
            with env.running(not concrete):
                dm1 = design_matrices(formula, d2, extra_namespace=ns)
        except symx.PathEnd:
            raise
        except symx.Inconclusive:
            raise
        except Exception as e:
            env.fail(f"transformed frame ({kind}) cannot be evaluated although the original can", {"exc": type(e).__name__, "site": core.repo_site(e), "msg": str(e)[:200]})
            continue
        M1 = mats(dm1)
        env.prove(sorted(M1) == sorted(M0), f"same matrices present ({kind})")
        for k in M0:
            if k not in M1:
                continue
            want = M0[k][p] if p is not None else M0[k]
            env.prove_equal(M1[k], want, f"{k}: design(T(data)) == T(design(data)) ({kind})")
        env.prove(meta(dm1) == meta0, f"labels, slices, levels unchanged ({kind})")
        fit1 = fitted(dm1)
        env.prove([a[:2] for a in fit1] == [a[:2] for a in fit0], f"same fitted parameters present ({kind})")
        if fit0 and len(fit1) == len(fit0):
            env.prove_equal([a[2] for a in fit1], [a[2] for a in fit0], f"fitted transform parameters unchanged ({kind})")


def run(tier, seed):
    rep = core.Report(ID, tier, seed)
    rep.functions = ["formulae.matrices.design_matrices (column selection by var_names, NA row mask), DesignMatrices, *Matrix.evaluate",
                     "formulae.terms.* set_type/set_data, Variable/Call.eval_categoric (level order), formulae.terms.call_utils.CallVarsExtractor",
                     "formulae.transforms.Center/Scale/Polynomial(raw)/binary/offset/C/T/S"]
    cs = cases(tier)
    rep.bounds = {"formulas": len(formulas(tier)), "cases": len(cs),
                  "transformations": "row reversal / rotation / scramble (with and without reset_index)" + (", all 23 non-identity permutations of the first 4 rows" if tier != "quick" else "") + "; index: shuffled ints, duplicate labels, strings, floats; reversed column order; added unused columns (one with NaN); NaN in a used column + duplicate index",
                  "frames": "complete factorial of used categoricals (>= 5 rows), numeric cells z3 reals"}
    rep.outside = ["bs(): knot placement by np.percentile and splev need concrete data: four bs formulas run on concrete float frames with exact float comparison, the solver only compares constants there", "floating point: order-dependent rounding of sums is outside the claim (reals)"]
    rep.stubs = pipe.STUBS
    rep.assumptions = ["std != 0 (definedness of scale)"]
    rep.rule = "one case = (formula, flavour, transformation): two real runs compared as z3 terms; non-trivial = both designs built"
    pipe.run_cases(rep, "vf.props.c08", "harness", cs)
    rep.nontrivial = sum(v for k, v in rep.reach.items() if k.startswith("same matrices present"))
    if rep.nontrivial == 0:
        rep.inconclusive.append("vacuous")
    return core.finish(rep)
