"""C03 -- the common-effects matrix has full column rank and spans exactly the model space.

Engine L: the real design_matrices runs on replicated complete-factorial data with integer
'generic' numeric columns; full column rank and span(X) == span(ModelSpace) are decided by z3
(QF_LRA) over the coefficient vectors.  Formulas (term families, term order, factor order,
intercept, atom kinds) are enumerated decision variables.
"""
import itertools
import re
from fractions import Fraction

import numpy as np
import pandas as pd

from vf import core, linalg

ID = "C03"
LEV = {"f": ["a", "b"], "g": ["s", "t", "u"], "h": ["p", "q"], "j": ["m", "n"], "k": [1, 2, 3], "m": ["v", "w"]}
LEVSETS = [dict(LEV), {"f": ["a", "b", "c"], "g": ["s", "t"], "h": ["p", "q", "r"], "j": ["m", "n"], "k": [1, 2], "m": ["v", "w"]},
           {"f": ["a"], "g": ["s", "t", "u"], "h": ["p", "q"], "j": ["m", "n"], "k": [1, 2, 3], "m": ["v", "w"]}]  # [2]: f has a single level
NUM = ["x", "z"]


def use_levels(i):
    LEV.clear()
    LEV.update(LEVSETS[i])


def frame(cats, nums, seed, reps=None):
    cells = list(itertools.product(*[LEV[c] for c in cats]))
    if reps is None:
        reps = max(2, -(-16 // len(cells)))  # at least 16 rows, at least two replications
    rows = cells * reps
    n = len(rows)
    rng = np.random.RandomState(1000 + seed)
    perm = rng.permutation(n)
    rows = [rows[i] for i in perm]
    d = {c: [r[i] for r in rows] for i, c in enumerate(cats)}
    for v in nums:
        # exact dyadic rationals that are not integers (float64 holds them exactly; a truncation to int is visible)
        d[v] = (rng.choice(np.arange(-40, 41)[np.arange(-40, 41) != 0], size=n, replace=n > 80).astype(np.int64) * 3 + rng.randint(1, 3, size=n)) / 4.0 + 0.125
    d["y"] = rng.randint(-9, 9, size=n)
    return pd.DataFrame(d), rows


def gen2(x):
    """stand-in for multi-column numeric atoms (bs / poly without their floats)"""
    x = np.asarray(x)
    return np.column_stack([x, (x * 8) * (x * 8) % 17 - 8.5])


def atom_vars(term):
    """variables of a term text like 'f:C(k):x' -> list of (var, kind)"""
    out = []
    for a in term.split(":"):
        m = re.match(r"^[A-Za-z0-9_]+\(([a-z])[,)]", a)
        v = m.group(1) if m else a
        out.append((v, a))
    return out


def model_space(terms, intercept, df):
    """reference matrix: for every term all indicator products of its categorical factors
    times its numeric factors (gen2 atoms contribute their two columns); constant iff intercept"""
    n = len(df)
    cols = []
    if intercept:
        cols.append(np.ones(n, dtype=np.int64))
    for t in terms:
        cats, nums = [], []
        for v, a in atom_vars(t):
            if v in LEV:
                cats.append(v)
            elif a.startswith("gen2("):
                nums.append(("gen2", v))
            else:
                nums.append(("id", v))
        numcols = [np.ones(n, dtype=np.int64)]
        for kind, v in nums:
            if kind == "id":
                numcols = [c * df[v].values for c in numcols]
            else:
                g = gen2(df[v].values)
                numcols = [c * g[:, j] for c in numcols for j in range(g.shape[1])]
        for combo in itertools.product(*[LEV[c] for c in cats]):
            ind = np.ones(n, dtype=np.int64)
            for c, l in zip(cats, combo):
                ind = ind * (df[c].values == l)
            for nc in numcols:
                cols.append(ind * nc)
    return np.column_stack(cols) if cols else np.zeros((n, 0), dtype=np.int64)


def frac_rank(M):
    """exact rank by fraction-free elimination (independent of z3; used for replay)"""
    A = [list(r) for r in linalg.exact(M)]
    if not A:
        return 0
    rank, rows, cols = 0, len(A), len(A[0])
    for c in range(cols):
        piv = next((r for r in range(rank, rows) if A[r][c] != 0), None)
        if piv is None:
            continue
        A[rank], A[piv] = A[piv], A[rank]
        pv = A[rank][c]
        for r in range(rank + 1, rows):
            if A[r][c] != 0:
                f = A[r][c] / pv
                A[r] = [a - f * b for a, b in zip(A[r], A[rank])]
        rank += 1
        if rank == rows:
            break
    return rank


def subsets_terms(vars_):
    out = []
    for r in range(1, len(vars_) + 1):
        for combo in itertools.combinations(vars_, r):
            out.append(combo)
    return out


def families(tier):
    """list of (terms tuple, intercept)"""
    V = ["f", "g", "h", "x"]
    subs = subsets_terms(V)  # 15 factor sets, canonical factor order
    fams = []
    for k in (1, 2, 3):
        for combo in itertools.permutations(subs, k):
            fams.append(tuple(":".join(t) for t in combo))
    out = [(fam, ic) for fam in fams for ic in (True, False)]  # 5910
    extra = []
    # factor orders inside terms, second numeric, coded atoms, gen2
    special = [
        ("g:f", "f"), ("f", "g:f"), ("x:f", "f"), ("f:x",), ("x:f", "x"), ("h:g:f",), ("g:x:f", "x"), ("x", "f", "x:f:g"), ("f", "g", "g:f"),
        ("z:x", "f:x:z"), ("x:z", "f:x:z"), ("x:z", "f:z:x"), ("f:x:z", "g:z:x"), ("f", "g", "f:x:z", "g:z:x"), ("x", "z", "x:z", "f:x", "f:z"),
        ("C(k)",), ("f", "C(k)", "f:C(k)"), ("g:C(k)",), ("C(k):x", "x"), ("T(g, 't')", "f", "f:T(g, 't')"), ("S(f)", "g", "S(f):g"), ("C(g, Sum)", "C(f, Sum)", "C(g, Sum):C(f, Sum)"),
        ("gen2(x)",), ("f", "gen2(x)", "f:gen2(x)"), ("f:gen2(x)",), ("gen2(x)", "gen2(x):f"), ("f", "g", "h", "j", "f:g", "h:j"), ("f", "g", "f:g", "f:g:h"), ("f:g:h:j",),
        ("f", "g", "h", "f:g", "f:h", "g:h", "f:g:h"), ("x", "f", "g", "f:g", "x:f", "x:g", "x:f:g"),
        # two numeric and two or three categorical factors in one term
        ("x:z", "f:g:x:z"), ("z:x", "f:x:g:z"), ("x:z", "g:x:z", "f:g:x:z"), ("f:g:x:z",), ("x:z", "f:g:h:z:x"), ("x:z", "f:x:z", "f:g:x:z"), ("f:g", "f:g:x:z"), ("x", "z", "f:x", "g:z", "f:g:x:z"),
    ]
    for sp in special:
        extra.append((sp, True))
        extra.append((sp, False))
    # operator spellings (several terms built from one written factor): (formula text, equivalent explicit terms)
    for text, terms in OPERATOR_FORMS:
        extra.append((("@" + text,) + tuple(terms), True))
        extra.append((("@" + text,) + tuple(terms), False))
    extra += [(coded(fam), ic) for i, (fam, ic) in enumerate(out) if i % (40 if tier == "quick" else 4) == 0 and any(v in CODED for t in fam for v in t.split(":"))]
    if tier == "quick":
        return out, extra
    # thorough: every factor order inside each term for families of <= 2 terms + all families of main effects and 2-way interactions over four two-level factors
    subs_perm = []
    for s in subs:
        subs_perm += [":".join(p) for p in itertools.permutations(s)]
    fams2 = []
    for k in (1, 2):
        for combo in itertools.permutations(subs_perm, k):
            if len({frozenset(t.split(":")) for t in combo}) == len(combo):
                fams2.append(combo)
    extra += [(fam, ic) for fam in fams2 for ic in (True, False)]
    F4 = ["f", "h", "j", "g"]
    subs4 = [":".join(c) for r in (1, 2, 3, 4) for c in itertools.combinations(F4, r)]
    for mask in range(1, 2 ** len(subs4)):
        if bin(mask).count("1") > 15:
            continue
        fam = tuple(s for i, s in enumerate(subs4) if mask >> i & 1)
        if mask % 7 == 0:  # a 1/7 systematic slice of the 32767 families (ascending degree order as written)
            extra.append((fam, True))
            extra.append((fam[::-1], False))
    return out, extra


OPERATOR_FORMS = [
    ("f/g", ["f", "f:g"]), ("f/x", ["f", "f:x"]), ("g/f/x", ["g", "g:f", "g:f:x"]), ("f:(g + x)", ["f:g", "f:x"]), ("(f + g)**2", ["f", "g", "f:g"]), ("f*g*h", ["f", "g", "h", "f:g", "f:h", "g:h", "f:g:h"]),
    ("(f + g)*x", ["f", "g", "x", "f:x", "g:x"]), ("(f + g + h)**2", ["f", "g", "h", "f:g", "f:h", "g:h"]), ("(f + g + h)**3", ["f", "g", "h", "f:g", "f:h", "g:h", "f:g:h"]), ("f*g*x", ["f", "g", "x", "f:g", "f:x", "g:x", "f:g:x"]),
    ("x/f", ["x", "x:f"]), ("(f + g):x", ["f:x", "g:x"]), ("f*g - f", ["g", "f:g"]), ("x*f - x", ["f", "x:f"]),
]


def split_fam(fam):
    """(formula text of the right-hand side, explicit terms for the reference)"""
    if fam and fam[0].startswith("@"):
        return fam[0][1:], list(fam[1:])
    return " + ".join(fam), list(fam)


CODED = {"f": "C(f)", "g": "S(g)", "h": "T(h, 'q')"}


def coded(fam):
    """the same family with every categorical written as a coded atom"""
    return tuple(":".join(CODED.get(a, a) for a in t.split(":")) for t in fam)


def formula_of(fam, intercept):
    return "y ~ " + ("" if intercept else "0 + ") + split_fam(fam)[0]


def check_formula(fam, intercept, seed):
    """returns dict(outcome=ok|noexplore|violation, ...)"""
    from formulae import design_matrices

    formula = formula_of(fam, intercept)
    fam = tuple(split_fam(fam)[1])
    vars_ = []
    for t in fam:
        for v, a in atom_vars(t):
            if v not in vars_:
                vars_.append(v)
    cats = [v for v in vars_ if v in LEV]
    nums = [v for v in vars_ if v not in LEV]
    results = []
    for attempt in range(2):  # a deficiency is re-tested at a second independent point
        df, _ = frame(cats, nums, seed + 17 * attempt)
        try:
            import contextlib, io

            with contextlib.redirect_stdout(io.StringIO()):
                dm = design_matrices(formula, df, extra_namespace={"gen2": gen2})
        except Exception as e:  # the property says the matrix "has" ...: no matrix is a violation
            return {"outcome": "violation", "what": "design cannot be built", "exc": type(e).__name__, "site": core.repo_site(e), "formula": formula, "detail": str(e)[:160]}
        if dm.common is None:
            return {"outcome": "ok", "formula": formula, "note": "empty model"}
        X = np.asarray(dm.common.design_matrix)
        labels = [str(c) for c in dm.common.as_dataframe().columns]
        if len(labels) != X.shape[1]:
            return {"outcome": "violation", "what": "labels and columns differ in number", "formula": formula, "detail": f"{len(labels)} labels, {X.shape[1]} columns"}
        R = model_space(fam, intercept, df)
        full, dep = linalg.full_column_rank(X)
        if full is None:
            return {"outcome": "unknown", "formula": formula}
        if not full:
            results.append(("rank", f"columns linearly dependent: {X.shape[1]} columns, dependency among {[labels[j] for j, d in enumerate(dep) if d != 0][:6]}"))
            continue
        same, why = linalg.same_span(X, R)
        if same is None:
            return {"outcome": "unknown", "formula": formula}
        if not same:
            results.append(("span", f"{why} ({X.shape[1]} columns, model space of dimension {frac_rank(R)})"))
            continue
        return {"outcome": "ok", "formula": formula, "cols": X.shape[1]}
    kinds = {k for k, _ in results}
    return {"outcome": "violation", "what": "rank deficient" if "rank" in kinds else "does not span the model space", "formula": formula, "detail": results[0][1]}


def replay(formula, seed, what, levset=0):
    """plain numpy / exact-fraction re-evaluation of a violation (no z3)"""
    from formulae import design_matrices

    use_levels(levset)
    m = re.match(r"y ~ (0 \+ )?(.*)$", formula)
    intercept = m.group(1) is None
    ops = dict(OPERATOR_FORMS)
    fam = tuple(ops[m.group(2)]) if m.group(2) in ops else tuple(m.group(2).split(" + "))
    vars_ = []
    for t in fam:
        for v, a in atom_vars(t):
            if v not in vars_:
                vars_.append(v)
    cats = [v for v in vars_ if v in LEV]
    nums = [v for v in vars_ if v not in LEV]
    df, _ = frame(cats, nums, seed)
    try:
        import contextlib, io

        with contextlib.redirect_stdout(io.StringIO()):
            dm = design_matrices(formula, df, extra_namespace={"gen2": gen2})
    except Exception as e:
        return what == "design cannot be built", f"raises {type(e).__name__}: {str(e)[:100]}"
    X = np.asarray(dm.common.design_matrix)
    R = model_space(fam, intercept, df)
    rx, rr, rxr = frac_rank(X), frac_rank(R), frac_rank(np.column_stack([X, R]))
    bad = rx < X.shape[1] or rx != rr or rxr != rr
    return bad, f"exact ranks: rank(X)={rx} of {X.shape[1]} columns, dim(model space)={rr}, rank([X|R])={rxr}"


def _work(job):
    core.setup_paths()
    core.silence_logging()
    out = []
    use_levels(job.get("levset", 0))
    for fam, ic in job["items"]:
        r = check_formula(fam, ic, job["seed"])
        r["levset"] = job.get("levset", 0)
        if r["outcome"] == "violation":
            rep, detail = replay(r["formula"], job["seed"], r["what"], job.get("levset", 0))
            r["reproduced"], r["replay_detail"] = rep, detail
        out.append(r)
    return {"results": out, "queries": linalg.STATS.queries, "solver_s": linalg.STATS.solver_s, "cross": dict(linalg.STATS.cross)}


def run(tier, seed):
    rep = core.Report(ID, tier, seed)
    rep.level = "other"
    rep.explanation = ("Engine L: formulas, level counts and data layouts are enumerated (decision variables); what z3 decides, for every one of them, is the universally quantified "
                       "linear-algebra statement over coefficient vectors (QF_LRA): 'no non-zero c with Xc = 0' and 'every model-space direction is a combination of the columns and vice versa'. "
                       "X is produced by the real design_matrices on exact integer data, so an unsat answer is exact; generic-position data means full rank at this point proves generic full rank, "
                       "and a deficiency is re-tested at a second independent point before it is reported.")
    rep.functions = ["formulae.contrasts.* (pick_contrasts, ExpandedTerm, Subterm)", "formulae.terms.terms.Model._get_encoding_groups/_get_encoding_bools/add_extra_terms/eval, create_extra_term",
                     "formulae.terms.variable/call eval_categoric, eval_categorical_box", "formulae.categorical.Treatment/Sum"]
    base, extra = families(tier)
    rep.bounds = {"base family": f"{len(base)} formulas: every ordered family of <= 3 terms over the 15 non-empty subsets of f, g, h (categorical, 2/3/2 levels) and x (numeric), with and without intercept",
                  "extra": f"{len(extra)} formulas: factor orders inside terms, a second numeric z, C/T/S coded atoms, a two-column numeric atom gen2(x)" + ("" if tier == "quick" else ", every factor order for families of <= 2 terms, a 1/7 slice of all families over four factors"),
                  "data": "replicated complete factorial (>= 2 replications, >= 16 rows) in scrambled row order, exact non-integer dyadic numeric columns from VERIF_SEED"}
    rep.outside = ["bs / poly / scale atoms themselves (float64 columns: exact rank of a float matrix does not decide a structural dependency); level counts > 3; families of more than 3 terms except the listed ones"]
    rep.assumptions = ["general position by integer pseudo-random data (full rank at one point proves generic full rank; deficiencies re-tested at a second point)"]
    rep.rule = "one case = one formula; non-trivial = the design was built and both linear-algebra obligations were decided"
    items = base + extra
    chunks = [items[i::128] for i in range(128)]
    jobs = [{"items": ch, "seed": seed} for ch in chunks if ch]
    # a factor with exactly one level in the data
    one = [(fam, ic) for fam in [("f",), ("f", "g"), ("g", "f"), ("g", "f", "x"), ("g:f",), ("f:x",), ("f", "g", "f:g"), ("C(f)", "x"), ("x", "f:x"), ("f", "h", "g:h")] for ic in (True, False)]
    jobs.append({"items": one, "seed": seed, "levset": 2})
    rep.bounds["one-level factor"] = f"{len(one)} formulas on data where f has a single level"
    if tier != "quick":
        # second assignment of level counts (f: 3, g: 2, h: 3) for a third of the base family
        alt = [it for i, it in enumerate(base) if i % 3 == 0]
        jobs += [{"items": alt[i::64], "seed": seed, "levset": 1} for i in range(64) if alt[i::64]]
        rep.bounds["level counts"] = "f:2 g:3 h:2 for everything; f:3 g:2 h:3 for every third formula of the base family"
    results = core.pmap(_work, jobs)
    nq, ss = 0, 0.0
    cross = {"solver": "/usr/bin/z3 4.8.12", "checked": 0, "agree": 0, "disagree": 0, "unknown": 0}
    for r in results:
        nq += r["queries"]
        ss += r["solver_s"]
        for k, v in r.get("cross", {}).items():
            cross[k] += v
        for x in r["results"]:
            rep.cases += 1
            if x["outcome"] == "ok":
                rep.nontrivial += 1
                rep.add_sample({"formula": x["formula"], "columns": x.get("cols"), "verdict": "full rank, span == model space"}, limit=6)
            elif x["outcome"] == "unknown":
                rep.inconclusive.append(f"solver unknown on {x['formula']}")
            else:
                sig = {"formula": x["formula"], "what": x["what"], "levset": x.get("levset", 0)}
                if "exc" in x:
                    sig["exc"], sig["site"] = x["exc"], x["site"]
                rep.violations.append({"label": x["what"], "signature": sig, "replay": {"formula": x["formula"], "seed": seed, "detail": x["detail"]}, "reproduced": x["reproduced"], "detail": x["replay_detail"]})
                rep.replayed += 1
    if cross["checked"]:
        rep.extra["second_solver"] = cross
        if cross["disagree"]:
            rep.inconclusive.append("second solver (z3 4.8.12) disagrees on an LRA query")
    rep.stats = {"paths": rep.cases, "solver_queries": nq, "solver_s": ss, "obligations": 2 * rep.nontrivial + len(rep.violations), "discharged": 2 * rep.nontrivial, "violated": len(rep.violations)}
    return core.finish(rep)


def replay_file(v):
    return replay(v["replay"]["formula"], v["replay"].get("seed", 0), v["signature"]["what"], v["signature"].get("levset", 0))
