"""C14 -- stateful transforms satisfy their mathematical contracts.

Data vectors are z3 reals x_0..x_{n-1} (ties, large offsets, small n are points of the symbolic
space).  The real Center / Scale / Polynomial run on them through the real pipeline; the
contracts are NRA obligations with division-free quotients and square roots (definitions added
lazily).  bs(): only what happens before FITPACK is decidable -- parameter validation and the
number of columns, with df/degree/intercept/knots as decision variables on concrete data.
"""
import itertools

import numpy as np
import pandas as pd
import z3

from vf import core, gen, pipe, symx

ID = "C14"


def cases(tier):
    out = []
    ns = [2, 3, 4] if tier == "quick" else [2, 3, 4, 5, 6, 8, 10]
    for n in ns:
        out.append(("center", n, None))
        out.append(("scale", n, "scale"))
        out.append(("scale", n, "standardize"))
    for n in ([3] if tier == "quick" else [2, 3, 5]):
        for d in range(1, 7):
            out.append(("poly_raw", n, d))
    for n, d in ([(3, 1), (4, 1), (3, 2)] if tier == "quick" else [(2, 1), (3, 1), (4, 1), (5, 1), (6, 1), (8, 1), (10, 1), (3, 2)]):
        out.append(("poly_orth", n, d))
    for n, d in ([(4, 2), (5, 3)] if tier == "quick" else [(4, 2), (5, 2), (5, 3), (6, 3), (6, 4)]):
        out.append(("poly_orth1", n, d))
    # bs parameter space (concrete data): df 0..8, degree -1..5, intercept, explicit knots 0..4
    data_kinds = ["generic", "ties_at_min"]
    for dk in data_kinds:
        for df in [None] + list(range(0, 9)):
            for degree in range(-1, 6):
                for intercept in (False, True):
                    for nk in (None, 0, 1, 2, 4):
                        if tier == "quick" and (df is not None and nk is not None and nk > 2):
                            continue
                        out.append(("bs", dk, (df, degree, intercept, nk)))
    out += [("bs_bounds", kind, None) for kind in ("lower>upper", "knot<lower", "knot>upper", "knots2d", "df_float", "degree_float", "ok_bounds", "knots_unsorted_out_high", "knots_unsorted_out_low", "knots_unsorted_ok",
                                                    "lower_only_above_data", "upper_only_below_data", "lower_only_above_data_knots", "int_knots_list", "int_knots_array", "int_knots_tuple", "lower_only_ok", "upper_only_ok",
                                                    "poly_deg_eq_distinct", "poly_deg_gt_distinct", "poly_deg_binary", "poly_deg_ok_max", "poly_raw_any")]
    return out


def signature(case, v):
    info = v.get("info") or {}
    sig = {"kind": case[0], "n": case[1], "arg": repr(case[2]), "what": v["label"].split(" [")[0]}
    if isinstance(info, dict) and "exc" in info:
        sig["exc"], sig["site"] = info["exc"], info.get("site")
    return sig


def zsum(vals):
    s = vals[0]
    for v in vals[1:]:
        s = s + v
    return s


class _Refused(Exception):
    pass


def harness(env, case):
    try:
        _harness(env, case)
    except _Refused:
        return


def _harness(env, case):
    from formulae import design_matrices

    kind, n, arg = case
    sym = env.mode == "sym"

    def build(formula, df, **kw):
        try:
            with env.running():
                return design_matrices(formula, df, **kw)
        except (symx.PathEnd, symx.Inconclusive):
            raise
        except Exception as e:
            env.fail("a valid transform call is refused", {"formula": formula, "exc": type(e).__name__, "site": core.repo_site(e), "msg": str(e)[:160]})
            raise _Refused()

    def transform_of(dm, name):
        comp = dm.common.terms[name].components[0]
        return comp.call.stateful_transform

    if kind in ("center", "scale"):
        if sym:
            env.c.rational = True  # exact fractions instead of quotient variables
        x = env.column("x", n)
        y = env.column("y", n)
        df = env.frame({"y": y, "x": x})
        fn = "center" if kind == "center" else arg
        name = f"{fn}(x)"
        dm = build(f"y ~ {name}", df)
        col = np.asarray(dm.common[name]).reshape(-1)
        if sym:
            env.prove(zsum(list(col)) == 0, f"{kind}: mean zero on the training data")
            if kind == "scale":
                env.prove(zsum([c * c for c in col]) == n, "scale: unit population standard deviation on the training data")
        else:
            env.prove(abs(float(np.sum(col))) < 1e-7 * max(1.0, float(np.max(np.abs(x)))), f"{kind}: mean zero on the training data")
            if kind == "scale":
                env.prove(abs(float(np.sum(col * col)) - n) < 1e-6, "scale: unit population standard deviation on the training data")
        # same affine map on later data
        st = transform_of(dm, name)
        x2 = env.column("xnew", 2)
        nd = env.frame({"y": env.column("ynew", 2), "x": x2})
        with env.running():
            new = np.asarray(dm.common.evaluate_new_data(nd).design_matrix)[:, 1]
        if kind == "center":
            env.prove_equal(new, x2 - st.mean, "center: same shift (training mean) on later data")
            env.prove_equal([st.mean * n], [zsum(list(x)) if not sym else symx.Sym(zsum([v.e for v in x]))], "center: the shift is the training mean")
        else:
            lhs = [v * st.std for v in new]
            env.prove_equal(lhs, x2 - st.mean, "scale: same affine map (training mean and std) on later data")
        return
    if kind == "poly_raw":
        d = arg
        x = env.column("x", n)
        df = env.frame({"y": env.column("y", n), "x": x})
        name = f"poly(x, {d}, raw=True)"
        dm = build(f"y ~ {name}", df)
        M = np.asarray(dm.common[name])
        env.prove(M.shape == (n, d) or (d == 1 and M.reshape(n, -1).shape == (n, 1)), "poly raw: d columns")
        want = np.column_stack([x ** k for k in range(1, d + 1)])
        env.prove_equal(M.reshape(n, -1), want, "poly(x, d, raw=True) returns exactly the powers x^1..x^d")
        nd = env.frame({"y": env.column("ynew", 2), "x": env.column("xnew", 2)})
        with env.running():
            new = np.asarray(dm.common.evaluate_new_data(nd).design_matrix)[:, 1:]
        env.prove_equal(new, np.column_stack([nd["x"].values ** k for k in range(1, d + 1)]), "poly raw: powers of the new data at prediction")
        return
    if kind in ("poly_orth", "poly_orth1"):
        d = arg
        if sym:
            env.c.rational = True
        x = env.column("x", n)
        if kind == "poly_orth1":
            # all values but the last are concrete (asymmetric) rationals: univariate NRA, decidable for higher degree
            fixed = [0, 1, 3, 7, 8, 12][: n - 1]
            for i, v in enumerate(fixed):
                x[i] = (symx.Sym.lift(v) * 1) if sym else float(v)
        df = env.frame({"y": env.column("y", n), "x": x})
        name = f"poly(x, {d})"
        if sym and kind == "poly_orth":
            # general position: the data are not all equal (otherwise the norms vanish)
            env.assume(z3.Or([x[i].e != x[0].e for i in range(1, n)]), "poly: x not constant")
            if n >= 5:
                # the statements about poly are invariant under row permutations, so larger data sets are taken sorted and
                # distinct (ties are covered for n <= 4); this also keeps np.unique from forking over all orderings
                env.assume(z3.And([x[i].e < x[i + 1].e for i in range(n - 1)]), "poly: data sorted and distinct (n >= 5, without loss of generality up to ties)")
        # a degree that the data cannot support (not more than d distinct values) is refused; any other refusal is not
        try:
            with env.running():
                dm = design_matrices(f"y ~ {name}", df)
        except (symx.PathEnd, symx.Inconclusive):
            raise
        except ValueError as e:
            if sym:
                more = z3.Or([z3.And([symx.to_z3(a) != symx.to_z3(b) for a, b in itertools.combinations(sub, 2)]) for sub in itertools.combinations(list(x), d + 1)]) if n > d else z3.BoolVal(False)
                env.prove(z3.Not(more), "poly refuses a degree only when the data have no more than d distinct values", {"exc": type(e).__name__, "msg": str(e)[:100]})
            else:
                env.prove(len(set(float(v) for v in x)) <= d, "poly refuses a degree only when the data have no more than d distinct values", {"msg": str(e)[:100]})
            return
        except Exception as e:
            env.fail("a valid transform call is refused", {"formula": name, "exc": type(e).__name__, "site": core.repo_site(e), "msg": str(e)[:160]})
            return
        M = np.asarray(dm.common[name]).reshape(n, -1)
        env.prove(M.shape == (n, d), "poly: d columns")
        for j in range(M.shape[1]):
            cj = list(M[:, j])
            if sym:
                env.prove(zsum(cj) == 0, "poly: columns orthogonal to the constant")
                env.prove(zsum([a * a for a in cj]) == 1, "poly: columns have unit norm")
            else:
                env.prove(abs(float(np.sum(M[:, j]))) < 1e-7, "poly: columns orthogonal to the constant")
                env.prove(abs(float(np.sum(M[:, j] * M[:, j])) - 1) < 1e-7, "poly: columns have unit norm")
        for j in range(M.shape[1]):
            for k in range(j + 1, M.shape[1]):
                if sym:
                    env.prove(zsum([M[i, j] * M[i, k] for i in range(n)]) == 0, "poly: columns are mutually orthogonal")
                else:
                    env.prove(abs(float(np.sum(M[:, j] * M[:, k]))) < 1e-7, "poly: columns are mutually orthogonal")
        # same span as x..x^d: column k satisfies the three-term recurrence with the fitted
        # alpha / norms, i.e. it is a polynomial of exact degree k in x (leading coefficient
        # 1/sqrt(norm_k) != 0), so the basis change to the raw powers is triangular and regular
        st = transform_of(dm, name)
        if sym:
            import formulae.transforms as FT

            r = {k: FT.np.sqrt(st.norms2[k]) for k in range(0, d + 1)}

            def recurrence(cols, xs, alpha, norms, m):
                U = {0: [symx.Sym.lift(1) * 1 for _ in range(m)]}
                conds = []
                for k in range(1, d + 1):
                    U[k] = [cols[i, k - 1] * r[k] for i in range(m)]
                    for i in range(m):
                        rhs = (xs[i] - alpha[k - 1]) * U[k - 1][i]
                        if k >= 2:
                            rhs = rhs - (norms[k - 1] / norms[k - 2]) * U[k - 2][i]
                        eq = U[k][i] == rhs
                        conds.append(eq.e if isinstance(eq, symx.SymB) else z3.BoolVal(bool(eq)))
                return z3.And(conds)

            env.prove(recurrence(M, x, st.alpha, st.norms2, n), "poly: column k is a degree-k polynomial of x (three-term recurrence with the fitted parameters): same span as x..x^d")
            # later data: the same recurrence with the TRAINING parameters
            alpha0, norms = dict(st.alpha), dict(st.norms2)
            x2 = env.column("xnew", 2)
            nd = env.frame({"y": env.column("ynew", 2), "x": x2})
            with env.running():
                new = np.asarray(dm.common.evaluate_new_data(nd).design_matrix)[:, 1:]
            ok = env.prove_equal([st.alpha[k] for k in sorted(alpha0)] + [st.norms2[k] for k in sorted(norms)], [alpha0[k] for k in sorted(alpha0)] + [norms[k] for k in sorted(norms)],
                                 "poly: fitted recurrence coefficients and norms unchanged by evaluate_new_data")
            if ok:
                env.prove(recurrence(new, x2, alpha0, norms, 2), "poly: later data go through the same recurrence with the training parameters")
        else:
            alpha0, norms = dict(st.alpha), dict(st.norms2)
            x2 = env.column("xnew", 2)
            nd = env.frame({"y": env.column("ynew", 2), "x": x2})
            with env.running():
                new = np.asarray(dm.common.evaluate_new_data(nd).design_matrix)[:, 1:]
            env.prove_equal([st.alpha[k] for k in sorted(alpha0)] + [st.norms2[k] for k in sorted(norms)], [alpha0[k] for k in sorted(alpha0)] + [norms[k] for k in sorted(norms)],
                            "poly: fitted recurrence coefficients and norms unchanged by evaluate_new_data")
            if d >= 1:
                want1 = (x2 - alpha0[0]) / np.sqrt(norms[1])
                env.prove_equal(new[:, 0], want1, "poly: later data go through the same recurrence with the training parameters")
        return
    if kind == "bs":
        dfp, degree, intercept, nk = arg
        rng = np.random.RandomState(12345)
        N = 40
        if n == "generic":
            xs = np.sort(rng.uniform(-3, 7, N))[rng.permutation(N)]
        else:
            xs = np.concatenate([np.zeros(24), rng.uniform(0.1, 5, N - 24)])[rng.permutation(N)]
        lo, hi = float(xs.min()), float(xs.max())
        knots = None if nk is None else [lo + (hi - lo) * (i + 1) / (nk + 1) for i in range(nk)]
        data = pd.DataFrame({"y": rng.normal(size=N), "x": xs})
        args = []
        if dfp is not None:
            args.append(f"df={dfp}")
        if knots is not None:
            args.append("knots=kn")
        args.append(f"degree={degree}")
        args.append(f"intercept={intercept}")
        name = "bs(x, " + ", ".join(args) + ")"
        # documented validity
        valid = degree >= 0 and not (dfp is None and knots is None)
        ncols = None
        if valid:
            order = degree + 1
            if dfp is not None:
                n_inner = dfp - order + (0 if intercept else 1)
                if n_inner < 0:
                    valid = False
                elif knots is not None and len(knots) != n_inner:
                    valid = False
                else:
                    ncols = dfp
            else:
                ncols = len(knots) + degree + (1 if intercept else 0)
        if valid and ncols == 0:
            valid = None  # a spline basis with no column: either outcome accepted
        try:
            with env.running(False):
                dm = design_matrices(f"y ~ 0 + {name}", data, extra_namespace={"kn": knots})
            raised = None
        except Exception as e:  # noqa
            dm, raised = None, e
        if valid is None:
            env.ok("bs: degenerate zero-column request (either outcome)")
            return
        if not valid:
            env.prove(raised is not None, "bs: invalid df/degree/knots combination is refused", {"args": name})
            return
        if raised is not None:
            env.fail("bs: valid parameters refused", {"exc": type(raised).__name__, "site": core.repo_site(raised), "msg": str(raised)[:160], "args": name})
            return
        M = np.asarray(dm.common.design_matrix)
        env.prove(M.shape == (N, ncols), "bs: as many columns as df (or knots + degree, + 1 with intercept)", {"args": name, "shape": M.shape, "want": ncols})
        return
    if kind == "bs_bounds":
        rng = np.random.RandomState(7)
        xs = rng.uniform(0, 10, 30)
        data = pd.DataFrame({"y": rng.normal(size=30), "x": xs, "t3": [0.0, 1.0, 2.5] * 10, "b2": [0.0, 1.0] * 15})
        table = {
            "lower>upper": ("bs(x, df=4, lower_bound=8, upper_bound=2)", True), "knot<lower": ("bs(x, knots=kn, lower_bound=5)", True), "knot>upper": ("bs(x, knots=kn, upper_bound=5)", True),
            "knots2d": ("bs(x, knots=kn2)", True), "df_float": ("bs(x, df=4.5)", True), "degree_float": ("bs(x, df=4, degree=2.0)", True), "ok_bounds": ("bs(x, df=5, lower_bound=-1, upper_bound=11)", False),
            "knots_unsorted_out_high": ("bs(x, knots=ku1)", True), "knots_unsorted_out_low": ("bs(x, knots=ku2)", True), "knots_unsorted_ok": ("bs(x, knots=ku3)", False),
            # a single explicit bound on the wrong side of the data (the other bound comes from the data); integer knots
            "lower_only_above_data": ("bs(x, 3, lower_bound=12)", True), "upper_only_below_data": ("bs(x, df=4, degree=3, intercept=True, upper_bound=-1)", True), "lower_only_above_data_knots": ("bs(x, knots=kn, lower_bound=12)", True),
            "int_knots_list": ("bs(x, knots=ki)", False), "int_knots_array": ("bs(x, knots=kia)", False), "int_knots_tuple": ("bs(x, knots=kit)", False),
            "lower_only_ok": ("bs(x, df=4, lower_bound=-2)", False), "upper_only_ok": ("bs(x, df=4, upper_bound=12)", False),
            # orthonormal poly: the degree must stay below the number of distinct values (t3 has 3, b2 has 2)
            "poly_deg_eq_distinct": ("poly(t3, 3)", True), "poly_deg_gt_distinct": ("poly(t3, 5)", True), "poly_deg_binary": ("poly(b2, 2)", True), "poly_deg_ok_max": ("poly(t3, 2)", False), "poly_raw_any": ("poly(t3, 4, raw=True)", False),
        }
        f, must = table[n]
        try:
            with env.running(False):
                design_matrices(f"y ~ {f}", data, extra_namespace={"kn": [3.0, 6.0], "kn2": [[3.0], [6.0]], "ku1": [3.0, 12.5, 5.0], "ku2": [4.0, -2.0, 6.0], "ku3": [6.0, 2.0, 4.0],
                                                                         "ki": [3, 6], "kia": np.array([2, 4, 7]), "kit": (3, 5)})
            ok = True
        except Exception:  # noqa
            ok = False
        env.prove(ok != must, "bs: invalid knots/bounds/df/degree are refused, valid bounds accepted", {"call": f})
        return
    raise ValueError(kind)


def concrete_integer_powers(rep):
    """poly(x, d, raw=True) on columns of integer dtype returns exactly the powers (plain API, compared
    with Python's unbounded integers)"""
    from formulae import design_matrices

    n = 0
    for dt, vals in (("int8", [3, -5, 11, 100]), ("int16", [182, -150, 7, 30000]), ("int32", [2019, 46341, -70000, 5]), ("int64", [2150000, -3, 12, 99999]), ("uint8", [200, 16, 3, 255])):
        df = pd.DataFrame({"y": [0.5, 1.5, 2.5, 3.5], "k": np.array(vals, dtype=dt)})
        for d in (2, 3):
            n += 1
            name = f"poly(k, {d}, raw=True)"
            try:
                X = np.asarray(design_matrices(f"y ~ 0 + {name}", df).common[name], dtype=float).reshape(len(vals), -1)
            except Exception as e:  # noqa
                rep.violations.append({"label": "a valid transform call is refused", "signature": {"what": "integer powers", "dtype": dt, "degree": d, "exc": type(e).__name__}, "replay": {"dtype": dt, "degree": d}, "reproduced": True, "detail": f"{name} on {dt}: {type(e).__name__}: {e}"[:200]})
                continue
            want = [[float(v ** k) for k in range(1, d + 1)] for v in vals]
            if X.shape != (len(vals), d) or any(abs(X[i, j] - want[i][j]) > 1e-9 * max(1.0, abs(want[i][j])) for i in range(len(vals)) for j in range(d)):
                rep.violations.append({"label": "poly(x, d, raw=True) returns exactly the powers x^1..x^d", "signature": {"what": "integer powers", "dtype": dt, "degree": d}, "replay": {"dtype": dt, "degree": d, "got": X.tolist(), "want": want},
                                       "reproduced": True, "detail": f"{name} on an {dt} column: {X.tolist()} instead of {want}"[:300]})
    rep.extra["concrete_integer_powers"] = n


def concrete_integer_scale(rep):
    """center / scale / standardize on columns of integer dtype: mean zero (and unit deviation for
    scale) up to rounding (plain API; the symbolic cases range over reals, not over numpy dtypes)"""
    from formulae import design_matrices

    n = 0
    for dt, vals in (("int8", [3, -5, 11, 100]), ("int32", [2019, 46341, -70000, 6]), ("int64", [2, 3, 3, 5]), ("uint8", [200, 16, 3, 254]), ("bool", [True, False, False, True, True])):
        df = pd.DataFrame({"y": [0.5 + i for i in range(len(vals))], "k": np.array(vals, dtype=dt)})
        for fn in ("center", "scale", "standardize"):
            n += 1
            name = f"{fn}(k)"
            try:
                c = np.asarray(design_matrices(f"y ~ 0 + {name}", df).common[name], dtype=float).reshape(-1)
            except Exception as e:  # noqa
                rep.violations.append({"label": "a valid transform call is refused", "signature": {"what": "integer column", "fn": fn, "dtype": dt, "exc": type(e).__name__}, "replay": {"dtype": dt, "fn": fn}, "reproduced": True, "detail": f"{name} on {dt}: {type(e).__name__}: {e}"[:200]})
                continue
            mag = max(1.0, float(np.max(np.abs(c))))
            bad = abs(float(c.mean())) > 1e-9 * mag or (fn != "center" and abs(float(c.std()) - 1.0) > 1e-9)
            if bad:
                rep.violations.append({"label": "the transformed training column has mean zero (scale: unit deviation)", "signature": {"what": "integer column", "fn": fn, "dtype": dt}, "replay": {"dtype": dt, "fn": fn, "values": [float(v) for v in vals], "got": c.tolist()},
                                       "reproduced": True, "detail": f"{name} on an {dt} column {list(vals)}: mean {float(c.mean())!r}, std {float(c.std())!r}"[:300]})
    rep.extra["concrete_integer_scale"] = n


def run(tier, seed):
    rep = core.Report(ID, tier, seed)
    rep.functions = ["formulae.transforms.Center.__call__", "formulae.transforms.Scale.__call__", "formulae.transforms.Polynomial.__call__/eval (raw and three-term recurrence, object work buffer)",
                     "formulae.transforms.BSpline.__call__/_initialize (validation, knot counts) and the column count of eval", "formulae.terms.call_resolver.LazyCall.eval"]
    cs = cases(tier)
    rep.bounds = {"center/scale/standardize": "n = 2..4 symbolic reals (thorough 2..10)", "poly raw": "degree 1..6, n = 3 (thorough 2, 3, 5)", "poly orthonormal": "degree 1 with n = 3, 4 (thorough 2..10); degree 2 with n = 3; with all but one data value concrete (0, 1, 3, 7, ...): degree 2 with n = 4 and degree 3 with n = 5 (thorough: up to degree 4 with n = 6)",
                  "bs": "df None,0..8 x degree -1..5 x intercept x explicit knots None,0,1,2,4 on two concrete data sets (generic; 60% ties at the minimum)", "cases": len(cs)}
    rep.outside = [
        "bs: non-negativity and partition of unity of the basis VALUES (computed by FITPACK splev, compiled Fortran: no source/IR to execute symbolically) -- not decided, not claimed",
        "poly orthonormality with ALL data values symbolic beyond (degree 1, n <= 10) and (degree 2, n = 3): unit norm for degree 2, n = 4 returns unknown after 40 s even with exact fractions; with one symbolic value among concrete ones degree 4 / n = 6 takes 180 s and degree 5 does not finish -- not decided, not claimed",
        "floating point (catastrophic cancellation, overflow); zero variance / constant x (assumed away)",
    ]
    rep.stubs = pipe.STUBS
    rep.assumptions = ["std != 0 (scale)", "x not constant (poly)"]
    rep.rule = "one case = one transform scenario / one bs parameter combination; non-trivial = all"
    pipe.run_cases(rep, "vf.props.c14", "harness", cs, timeout_ms=60000)
    concrete_integer_powers(rep)
    concrete_integer_scale(rep)
    rep.nontrivial = rep.cases
    return core.finish(rep)
