"""C09 -- missing-value policy drop / error / pass.

Relational: the real design_matrices is run on a frame with missing cells and on the frame from
which exactly the rows with a missing value in a USED variable were removed ('used' is computed
from the formula text by this harness, independently of Model.var_names).  Non-missing numeric
cells are z3 reals; the two designs are compared as z3 terms.
"""
import itertools
import re

import numpy as np
import pandas as pd

from vf import core, gen, pipe, symx

ID = "C09"
N = 6
BIG = 4100  # just over a power of two
COLS_NUM = ["y", "x", "z", "w", "u", "my var"]
COLS_CAT = {"f": list("ababab"), "g": list("ssttuu"), "v": list("pqpqpq")}


def shrink(x, towards):
    return x - towards


FORMULAS = [
    ("y ~ x + f", ["y", "x", "f"], True),
    ("y ~ x:f + z", ["y", "x", "f", "z"], True),
    ("y ~ I(x * 2) + shrink(z, towards=w)", ["y", "x", "z", "w"], True),
    ("y ~ x + (z|g)", ["y", "x", "z", "g"], True),
    ("y ~ `my var` + f", ["y", "my var", "f"], True),
    ("y ~ I(shrink(x, towards=I(w)) + z)", ["y", "x", "w", "z"], True),
    ("f ~ x", ["f", "x"], True),
    ("y ~ (1|g) + x", ["y", "g", "x"], True),
    ("y ~ center(x) + f", ["y", "x", "f"], False),  # not pointwise: drop / error only
    ("y ~ x + (0 + f|g)", ["y", "x", "f", "g"], True),
    ("x:z", ["x", "z"], True),  # no response
]


def _same_cell(u, w):
    if u is w:
        return True
    from vf import symx as _sx

    if isinstance(u, _sx.Sym) or isinstance(w, _sx.Sym):
        return False
    try:
        if u != u and w != w:  # both NaN
            return True
        return bool(u == w)
    except Exception:  # noqa
        return False


def used_from_text(formula):
    """names of data columns the formula text mentions (bare, inside calls, keyword values,
    back-quoted)"""
    used = set(re.findall(r"`([^`]*)`", formula))
    text = re.sub(r"`[^`]*`", " ", formula)
    text = re.sub(r"\b\w+\s*=(?!=)", " ", text)  # keyword names are not variables
    for name in re.findall(r"[A-Za-z_][A-Za-z0-9_.]*", text):
        if name in COLS_NUM or name in COLS_CAT:
            used.add(name)
    return used


def patterns(tier):
    names = ["y", "x", "z", "w", "u", "my var", "f", "g", "v"]
    cells = [(c, r) for c in names for r in (0, 4)]  # first row and an inner row
    pats = [[]] + [[c] for c in cells]
    pairs = list(itertools.combinations(cells, 2))
    if tier == "quick":
        pairs = [p for i, p in enumerate(pairs) if i % 11 == 0]
    pats += [list(p) for p in pairs]
    # every row incomplete in some used variable
    pats.append([("x", 0), ("x", 1), ("x", 2), ("z", 3), ("y", 4), ("x", 5)])
    pats.append([("x", 0), ("x", 1), ("x", 2), ("y", 3), ("y", 4), ("y", 5)])
    pats += [[(c, r)] for c in names for r in (1, 5)]  # second and last row alone
    if tier != "quick":
        trip = list(itertools.combinations(cells, 3))
        pats += [list(p) for i, p in enumerate(trip) if i % 9 == 0]
    return pats


def cases(tier):
    out = []
    acts = ["drop", "error", "pass", "raise", None]
    pats = patterns(tier)
    for fi, (f, used, pointwise) in enumerate(FORMULAS):
        for pi, pat in enumerate(pats):
            for a in acts:
                if a in ("raise", None) and pi > 2:
                    continue
                if a == "pass" and (not pointwise or any(c in COLS_CAT for c, _ in pat)):
                    continue
                if tier == "quick" and pi > 18 and (pi + fi) % 3 != 0:
                    continue
                out.append((fi, pat, a, False, False))
                if a == "drop" and pat:
                    out.append((fi, pat, a, True, False))  # same, under an index with repeated labels
                if a in ("drop", "error") and pat and pi % 5 == 2:
                    out.append((fi, pat, a, "multi", False))  # same, under a two-level row index
                    if pi % 4 == 1:
                        out.append((fi, pat, a, False, True))  # same, on a frame that has exactly the used columns
    # frames of BIG rows: a missing value in the very last rows / just after row 4096
    for fi in (0, 3):
        for pat in ([("x", BIG - 1)], [("x", 4096)], [("y", 4097), ("x", 0)], [("u", BIG - 1)]):
            for a in ("drop", "error") + (("pass",) if tier != "quick" else ()):
                out.append((fi, pat, a, False, False))
    return out


def signature(case, v):
    info = v.get("info") or {}
    sig = {"formula": FORMULAS[case[0]][0], "missing": [list(c) for c in case[1]], "na_action": case[2], "dup_index": case[3], "only_used_columns": case[4], "what": v["label"].split(" [")[0]}
    if isinstance(info, dict) and "exc" in info:
        sig["exc"], sig["site"] = info["exc"], info.get("site")
    return sig


def mats(dm):
    out = {}
    for k in ("response", "common", "group"):
        m = getattr(dm, k)
        if m is not None:
            out[k] = np.asarray(m.design_matrix)
    return out


def labels_of(dm):
    out = {}
    if dm.response is not None:
        try:
            out["response"] = [str(c) for c in dm.response.as_dataframe().columns]
        except Exception:  # noqa
            out["response"] = [dm.response.name]
    if dm.common is not None:
        out["common"] = [str(c) for c in dm.common.as_dataframe().columns]
    if dm.group is not None:
        out["group"] = [l for t in dm.group.terms.values() for l in t.labels]
    return out


def harness(env, case):
    from formulae import design_matrices

    fi, pat, action, dupindex, only_used = case
    formula, _, pointwise = FORMULAS[fi]
    used = used_from_text(formula)
    N = BIG if any(r >= globals()["N"] for _, r in pat) else globals()["N"]  # frames of several thousand rows for the big patterns
    cols = {}
    for c in COLS_NUM:
        cols[c] = env.column(c.replace(" ", "_"), N)
    clean = env.frame({**cols, **{k: (v * (N // len(v) + 1))[:N] for k, v in COLS_CAT.items()}})
    clean[""] = [float("nan") if i % 3 == 2 else 1.0 for i in range(N)]
    for k_, nm in enumerate(("I", "shrink", "center")):
        clean[nm] = [float("nan") if i % 3 == (k_ % 3) else 2.0 for i in range(N)]  # unused columns named like the functions the formulas call  # an unused column whose label is the empty string
    if dupindex == "multi":
        clean.index = pd.MultiIndex.from_tuples([(f"s{i // 2}", i % 2) for i in range(N)], names=["subject", "visit"])
    elif dupindex:
        clean.index = [i // 2 for i in range(N)]
    dirty = clean.copy()
    for c, r in pat:
        if c in COLS_NUM:
            vals = list(dirty[c].values)
            vals[r] = float("nan")
            dirty[c] = pd.Series(vals, dtype=object if env.mode == "sym" else float, index=dirty.index)
        else:
            vals = list(dirty[c].values)
            vals[r] = None
            dirty[c] = pd.Series(vals, dtype="str", index=dirty.index)
    if only_used:
        keepcols = [c for c in dirty.columns if c in used]
        clean, dirty = clean[keepcols], dirty[keepcols].copy()
    before = (list(dirty.columns), list(dirty.index), dirty.shape, [list(dirty[c].values) for c in dirty.columns])
    bad_rows = sorted({r for c, r in pat if c in used})
    keep = [i for i in range(N) if i not in bad_rows]
    ns = {"shrink": shrink}

    def run(frame, act):
        with env.running():
            return design_matrices(formula, frame, na_action=act, extra_namespace=ns)

    def untouched():
        now = (list(dirty.columns), list(dirty.index), dirty.shape, [list(dirty[c].values) for c in dirty.columns])
        same = now[:3] == before[:3] and all(len(a) == len(b) and all(_same_cell(u, w) for u, w in zip(a, b)) for a, b in zip(now[3], before[3]))
        env.prove(same, "the caller's frame is left untouched (rows, index, columns, cells)")

    if action not in ("drop", "error", "pass"):
        try:
            run(dirty, action)
        except symx.PathEnd:
            raise
        except ValueError:
            env.ok("unknown na_action refused")
            return
        except Exception as e:
            env.fail("unknown na_action: wrong exception type", {"exc": type(e).__name__, "site": core.repo_site(e)})
            return
        env.fail("unknown na_action accepted")
        return
    # reference: the frame without the rows that are incomplete in a used variable
    if not keep and action == "drop":
        # nothing is left: the same outcome as for a frame without observations, which is refused
        try:
            run(dirty, action)
        except (symx.PathEnd, symx.Inconclusive):
            raise
        except ValueError:
            env.ok("drop: refused when no complete row is left (as a frame without observations is)")
            return
        except Exception as e:
            env.fail("drop: no complete row left: wrong exception type", {"exc": type(e).__name__, "site": core.repo_site(e)})
            return
        env.fail("drop: a design without observations is returned when no complete row is left")
        return
    if not keep and action != "pass":
        return
    try:
        ref = run(clean.iloc[keep] if keep else clean, "error")
    except symx.PathEnd:
        raise
    except symx.Inconclusive:
        raise
    except Exception as e:
        env.fail("error: raises on a frame without any missing value", {"exc": type(e).__name__, "site": core.repo_site(e), "msg": str(e)[:200]})
        return
    R = mats(ref)
    try:
        dm = run(dirty, action)
        raised = None
    except symx.PathEnd:
        raise
    except symx.Inconclusive:
        raise
    except Exception as e:
        dm, raised = None, e
    untouched()
    if action == "error":
        if bad_rows:
            env.prove(isinstance(raised, ValueError), "error: ValueError iff a used variable is missing (must raise)", {"exc": type(raised).__name__ if raised else None})
        else:
            if raised is not None:
                env.fail("error: raises although no used variable is missing", {"exc": type(raised).__name__, "site": core.repo_site(raised), "msg": str(raised)[:200]})
            else:
                for k in R:
                    env.prove_equal(mats(dm).get(k), R[k], f"error/no used NA: {k} identical to the clean run")
        return
    if raised is not None:
        env.fail(f"{action}: raises", {"exc": type(raised).__name__, "site": core.repo_site(raised), "msg": str(raised)[:200]})
        return
    M = mats(dm)
    env.prove(sorted(M) == sorted(R), f"{action}: same matrices present")
    if action == "drop":
        for k in R:
            if k in M:
                env.prove_equal(M[k], R[k], f"drop: {k} == run on the frame without exactly the rows missing a used variable")
        env.prove(labels_of(dm) == labels_of(ref), "drop: labels identical")
        rowsn = {M[k].shape[0] for k in M}
        env.prove(rowsn == {len(keep)}, "drop: response, common and group stay row-aligned")
        return
    # pass
    L = labels_of(dm)
    # "complete rows are encoded exactly as under drop" presupposes that dropping does not remove a
    # level of a used categorical altogether (otherwise the two runs have different level sets)
    same_levels = all(set(clean[c].iloc[keep]) == set(clean[c]) for c in COLS_CAT if c in used) and len(keep) > 0
    for k in R:
        if k not in M:
            continue
        env.prove(M[k].shape[0] == N, f"pass: all rows kept ({k})")
        if M[k].shape[0] != N:
            continue
        A = M[k] if M[k].ndim == 2 else M[k][:, None]
        B = R[k] if R[k].ndim == 2 else R[k][:, None]
        if same_levels:
            env.prove_equal(A[keep], B, f"pass: complete rows encoded as under drop ({k})")
        labs = L.get(k, [])
        if len(labs) != A.shape[1]:
            continue
        for r in bad_rows:
            miss = [c for c, rr in pat if rr == r and c in used]
            for j, lab in enumerate(labs):
                mentions = any(re.search(r"(?<![\w.])" + re.escape(c) + r"(?![\w.])", lab) for c in miss)
                isnan = isinstance(A[r, j], float) and A[r, j] != A[r, j]
                if mentions != isnan:
                    env.fail(f"pass: NaN in exactly the columns derived from the missing variable ({k})", {"row": r, "label": lab, "missing": miss, "isnan": isnan})
                    break
            else:
                env.ok(f"pass: NaN in exactly the columns derived from the missing variable ({k})")


def run(tier, seed):
    rep = core.Report(ID, tier, seed)
    rep.functions = ["formulae.matrices.design_matrices (cols_to_select, incomplete_rows, na_action)", "formulae.terms.terms Model/Term/GroupSpecificTerm/Response.var_names",
                     "formulae.terms.variable.Variable.var_names", "formulae.terms.call.Call.var_names", "formulae.terms.call_utils.CallVarsExtractor.*"]
    cs = cases(tier)
    rep.bounds = {"formulas": [f[0] for f in FORMULAS], "missingness patterns": f"{len(patterns(tier))} subsets of <= {2 if tier == 'quick' else 3} cells over columns y x z w u 'my var' f g v (used and unused) x rows 0, 4 (singles also rows 1, 5) of a 6-row frame",
                  "na_action": ["drop", "error", "pass", "raise", None], "cases": len(cs)}
    rep.outside = ["'pass' with a missing categorical cell or a non-pointwise transform (the statement restricts pass to numeric variables in plain variables and pointwise calls)", "floats"]
    rep.stubs = pipe.STUBS
    rep.assumptions = ["'used' = names the formula text mentions (bare, call arguments, keyword values, back-quoted), computed by used_from_text()"]
    rep.rule = "one case = (formula, missingness pattern, na_action); two real runs compared as z3 terms; non-trivial = a used variable is missing"
    pipe.run_cases(rep, "vf.props.c09", "harness", cs)
    rep.nontrivial = sum(1 for c in cs if any(col in used_from_text(FORMULAS[c[0]][0]) for col, _ in c[1]))
    return core.finish(rep)
