"""C17 -- matrix containers are internally consistent.

Every ResponseMatrix / CommonEffectsMatrix / GroupEffectsMatrix / DesignMatrices reachable from a
generated design by chains of evaluate_new_data calls (with and without unseen groups) is
inspected: slices, indexing, views (equality of the views decided on z3 terms), labels, row
counts, printing.
"""
import itertools
import re

import numpy as np
import pandas as pd

from vf import core, gen, pipe, symx

ID = "C17"
FORMULAS = [
    "y ~ x", "y ~ x + f + f:x", "y ~ 0 + f:g", "y ~ poly(x, 2, raw=True) + g", "y ~ C(k) + x:C(k)", "f ~ x", "g[t] ~ x + f", "x + f",
    "y ~ w12 + x", "y ~ 0 + w12", "y ~ x + q1 + f", "y ~ q1", "y ~ (1|w12)",
    "y ~ x + (1|g)", "y ~ (x|g)", "y ~ (f|g)", "y ~ (0 + f|g)", "y ~ (1|g) + (x|h)", "y ~ (x|g) + (f|h) + (1|g:h)", "y ~ (0 + f:x|g)", "y ~ f + (x + f|g)", "y ~ (poly(x, 2, raw=True)|g)",
    "y ~ (1|g) + (1|h) + (0 + x|g)", "y ~ (x|g + h)", "y ~ 0 + g:poly(x, 2, raw=True)",
    "y ~ C(kf) + x", "y ~ (1|kf)", "y ~ C(kb):x",
    "y ~ ws + x", "y ~ (1|ws)", "ws ~ x",  # levels that differ only by surrounding blanks: labels stay distinct
    "y ~ 0 + f + yr", "y ~ yr", "y ~ f:yr",  # an all-integer matrix (yr: calendar years and other ints beyond one byte)
]
CHAINS = [[], ["seen"], ["unseen"], ["seen", "unseen"], ["unseen", "seen"], ["unseen", "unseen"]]


def cases(tier):
    out = []
    for f in FORMULAS:
        chains = CHAINS if tier != "quick" else CHAINS[:4]
        for ch in chains:
            if "|" not in f and "unseen" in ch:
                continue
            out.append((f, "str", ch))
        if tier != "quick":
            out.append((f, "ord", ["seen"]))
            out.append((f, "cat", []))
    if tier != "quick":
        for f in FORMULAS:
            if "|" in f:
                out.append((f, "str", ["unseen", "seen", "unseen"]))
        from vf.props import c04

        for i, f in enumerate(c04.family_formulas(2)):
            out.append((f, ("str", "cat", "ord")[i % 3], [[], ["seen"], ["seen", "seen"]][i % 3]))
    return out


def signature(case, v):
    info = v.get("info") or {}
    sig = {"formula": case[0], "chain": case[2], "what": v["label"].split(" [")[0]}
    if isinstance(info, dict) and "exc" in info:
        sig["exc"], sig["site"] = info["exc"], info.get("site")
    return sig


def check_slices(env, m, what):
    X = np.asarray(m.design_matrix)
    ncol = X.shape[1] if X.ndim == 2 else 1
    start = 0
    ok = list(m.slices.keys()) == list(m.terms.keys())
    for name in m.terms:
        sl = m.slices.get(name)
        if sl is None or sl.start != start or sl.stop < sl.start or sl.step not in (None, 1):  # an empty slice (zero-column term) is fine
            ok = False
            break
        start = sl.stop
    env.prove(ok and start == ncol, f"{what}: slices contiguous from 0 in term order and covering all columns")
    for name in m.terms:
        try:
            sub = m[name]
            env.prove_equal(sub, X[:, m.slices[name]], f"{what}: m[name] is the term's slice")
        except symx.PathEnd:
            raise
        except Exception as e:
            env.fail(f"{what}: indexing by a term name fails", {"exc": type(e).__name__, "site": core.repo_site(e)})
    # names that are not term names: a foreign string, and near misses of every real name (pieces swapped
    # across the bar, a character dropped / added)
    unknown = ["no such term"]
    for name in m.terms:
        cands = [name[:-1], name + "x"]
        if "|" in name:
            e, g = name.split("|", 1)
            cands.append(f"{g}|{e}")
        unknown += [c for c in cands if c and c not in m.terms and c not in unknown]
    for bad in unknown:
        try:
            m[bad]
            env.fail(f"{what}: unknown term name accepted", {"name": bad})
        except ValueError:
            env.ok(f"{what}: unknown term name refused")
        except Exception as e:
            env.fail(f"{what}: unknown term name: wrong exception", {"exc": type(e).__name__, "name": bad})


def check_print(env, obj, what, shapes):
    for fn in (str, repr):
        try:
            s = fn(obj)
        except symx.PathEnd:
            raise
        except Exception as e:
            env.fail(f"{what}: printing raises", {"exc": type(e).__name__, "site": core.repo_site(e), "msg": str(e)[:120]})
            return
        env.prove(all(str(tuple(sh)) in s for sh in shapes), f"{what}: printing reports the actual shape")


def check_design(env, dm, label, group_labels_ok=True):
    from formulae.matrices import DesignMatrices

    rows = set()
    shapes = []
    if dm.response is not None:
        R = np.asarray(dm.response.design_matrix)
        rows.add(R.shape[0])
        shapes.append(R.shape)
        env.prove_equal(np.asarray(dm.response), R, f"{label}response: numpy view == design_matrix")
        try:
            rdf = dm.response.as_dataframe()
            env.prove_equal(rdf.values if R.ndim == 2 else rdf.values[:, 0], R, f"{label}response: data-frame view == design_matrix")
            env.prove(len(set(rdf.columns)) == len(rdf.columns), f"{label}response: labels unique")
        except symx.PathEnd:
            raise
        except Exception as e:
            env.fail(f"{label}response: as_dataframe raises", {"exc": type(e).__name__, "site": core.repo_site(e)})
        check_print(env, dm.response, f"{label}response", [R.shape])
    if dm.common is not None:
        check_common(env, dm.common, label)
        rows.add(np.asarray(dm.common.design_matrix).shape[0])
        shapes.append(np.asarray(dm.common.design_matrix).shape)
    if dm.group is not None:
        check_group(env, dm.group, label, group_labels_ok)
        rows.add(np.asarray(dm.group.design_matrix).shape[0])
        shapes.append(np.asarray(dm.group.design_matrix).shape)
    env.prove(len(rows) == 1, f"{label}response, common and group have the same number of rows")
    if isinstance(dm, DesignMatrices):
        r, c, g = dm
        env.prove(r is dm.response and c is dm.common and g is dm.group, f"{label}tuple unpacking gives response, common, group")
        check_print(env, dm, f"{label}DesignMatrices", shapes)
        # ... and each shape is reported for the member it belongs to, absent members are not listed
        try:
            lines = str(dm).splitlines()
        except Exception:  # noqa -- reported by check_print
            lines = []
        for title, member in (("Response", dm.response), ("Common", dm.common), ("Group-specific", dm.group)):
            mine = [l for l in lines if l.strip().startswith(title + ":")]
            if not mine:
                continue  # another layout of the summary: only "reports the actual shape" (above) is demanded
            if member is None:
                env.prove(False, f"{label}DesignMatrices: a line for an absent member")
            else:
                env.prove(all(str(tuple(np.asarray(member.design_matrix).shape)) in l for l in mine), f"{label}DesignMatrices: a line that names a member reports that member's shape")


def check_common(env, m, label):
    X = np.asarray(m.design_matrix)
    check_slices(env, m, f"{label}common")
    env.prove_equal(np.asarray(m), X, f"{label}common: numpy view == design_matrix")
    try:
        cdf = m.as_dataframe()
        env.prove_equal(cdf.values, X, f"{label}common: data-frame view == design_matrix")
        env.prove(len(cdf.columns) == X.shape[1] and len(set(cdf.columns)) == len(cdf.columns), f"{label}common: labels unique and as many as columns")
    except symx.PathEnd:
        raise
    except Exception as e:
        env.fail(f"{label}common: as_dataframe raises", {"exc": type(e).__name__, "site": core.repo_site(e), "msg": str(e)[:120]})
    check_print(env, m, f"{label}common", [X.shape])


def check_group(env, m, label, labels_ok):
    X = np.asarray(m.design_matrix)
    check_slices(env, m, f"{label}group")
    env.prove_equal(np.asarray(m), X, f"{label}group: numpy view == design_matrix")
    if labels_ok:
        labs = [l for t in m.terms.values() for l in t.labels]
        env.prove(len(labs) == X.shape[1] and len(set(labs)) == len(labs), f"{label}group: labels unique and as many as columns")
    check_print(env, m, f"{label}group", [X.shape])


class View:
    """the three matrices derived from a design by evaluate_new_data"""

    def __init__(self, response, common, group):
        self.response, self.common, self.group = response, common, group


def harness(env, case):
    from formulae import config, design_matrices

    formula, flavour, chain = case
    vars_ = gen.used_vars(formula)
    extra_cols = {}
    base_vars = [v for v in vars_ if v not in ("w12", "q1")]
    df, rows = gen.build_frame(env, base_vars, flavour, "scramble", min_rows=13)
    n = len(df)
    if "w12" in formula:
        df["w12"] = [f"L{(i * 5) % 12:02d}" for i in range(n)] if n >= 12 else [f"L{i:02d}" for i in range(n)]
    if "q1" in formula:
        df["q1"] = ["only"] * n
    if "yr" in formula:
        df["yr"] = np.array([(2019, 127, 128, -129, -128, 300, 0, 70000, -40000)[i % 9] + (i // 9) for i in range(n)], dtype=np.int64)
    config["EVAL_UNSEEN_CATEGORIES"] = "error"
    try:
        with env.running():
            dm = design_matrices(formula, df)
    except symx.PathEnd:
        raise
    except Exception as e:
        if env.mode == "sym":
            env.c.reach(f"no design: {type(e).__name__}")
        return
    check_design(env, dm, "")
    cur = dm
    try:
        config["EVAL_UNSEEN_CATEGORIES"] = "silent"
        for step, kind in enumerate(chain):
            pick = [(step * 2 + i * 3) % n for i in range(4)]
            nd = df.iloc[pick].reset_index(drop=True)
            if kind == "unseen":
                gv = [v for v in ("g", "h") if v in nd.columns]
                for v in gv[:1] if step % 2 == 0 else gv[-1:]:
                    col = list(nd[v].values)
                    col[0] = "zz"
                    col[2] = "zz"
                    nd[v] = pd.Series(col, dtype="str")
            try:
                with env.running():
                    common = cur.common.evaluate_new_data(nd) if cur.common is not None else None
                    group = cur.group.evaluate_new_data(nd) if cur.group is not None else None
            except symx.PathEnd:
                raise
            except symx.Inconclusive:
                raise
            except Exception as e:
                env.fail("evaluate_new_data raises", {"exc": type(e).__name__, "site": core.repo_site(e), "msg": str(e)[:160]})
                return
            cur = View(None, common, group)
            check_design(env, cur, f"after {'+'.join(chain[: step + 1])}: ", group_labels_ok=False)
        # the original design is still consistent after the chain
        if chain:
            check_design(env, dm, "original after the chain: ")
    finally:
        config["EVAL_UNSEEN_CATEGORIES"] = "error"


def run(tier, seed):
    rep = core.Report(ID, tier, seed)
    rep.functions = ["formulae.matrices.ResponseMatrix/CommonEffectsMatrix/GroupEffectsMatrix: evaluate, evaluate_new_data, __getitem__, __array__, as_dataframe, __str__/__repr__; DesignMatrices.__getitem__/__str__",
                     "formulae.terms.terms Term.labels/levels, GroupSpecificTerm.labels/groups", "formulae.terms.variable.Variable.labels"]
    cs = cases(tier)
    rep.bounds = {"formulas": FORMULAS, "chains of evaluate_new_data": CHAINS if tier != "quick" else CHAINS[:4], "cases": len(cs), "new frames": "4 rows of the training frame; 'unseen' puts a never-seen group in rows 0 and 2 of one grouping variable (config silent)"}
    rep.outside = ["chains longer than 3", "floats"]
    rep.stubs = pipe.STUBS
    rep.assumptions = []
    rep.rule = "one case = (formula, flavour, chain); every reachable matrix object is inspected; non-trivial = design built"
    pipe.run_cases(rep, "vf.props.c17", "harness", cs)
    rep.nontrivial = rep.cases
    return core.finish(rep)
