"""C12 -- call terms evaluate like the Python expression they spell.

Columns x, z are z3 reals: '-x**2' vs '(-x)**2' is the polynomial disequality x^2 != -x^2 (sat at
x = 1).  Argument expressions (operator trees over columns, literals and recording functions) are
decision variables explored exhaustively to a depth bound; the oracle is Python's own eval of the
same text on the same symbolic columns.  Names: the term name must be the source text normalised
to single spaces, so whitespace variants coincide and different calls differ.
"""
import itertools
import re

import numpy as np
import pandas as pd
import z3

from vf import core, pipe, symx

ID = "C12"
N = 2
BIN = ["+", "-", "*", "/", "**", "==", "!=", "<", "<=", ">", ">="]
PREC = {"==": 1, "!=": 1, "<": 1, "<=": 1, ">": 1, ">=": 1, "+": 2, "-": 2, "*": 3, "/": 3, "u": 4, "**": 5}


def leaves(tier):
    return ["x", "z", "2", "0.5"] if tier == "quick" else ["x", "z", "2", "3", "0.5"]


def trees(tier):
    """('L', text) | ('U', op, t) | ('B', op, l, r)"""
    L = [("L", a) for a in leaves(tier)]
    d1 = L + [("U", op, t) for op in "+-" for t in L if t[1] in ("x", "z", "2")]
    out = list(d1)
    ops = BIN
    for op in ops:
        for l in d1:
            for r in d1:
                if op in ("==", "!=", "<", "<=", ">", ">=") and (l[0] == "U" or r[0] == "U") and tier == "quick":
                    continue
                out.append(("B", op, l, r))
    # depth 3: binary over (binary, leaf) and (leaf, binary) for a slice of operator pairs
    d2 = [t for t in out if t[0] == "B" and t[2][0] == "L" and t[3][0] == "L" and (tier != "quick" or (t[2][1] in ("x", "2") and t[3][1] in ("z", "2", "x")))]
    arith = ["+", "-", "*", "/", "**"]
    for op in arith + ["<", "=="]:
        for b in d2:
            if b[1] not in arith:
                continue
            for leaf in (("L", "x"), ("L", "3") if tier != "quick" else ("L", "2")):
                out.append(("B", op, b, leaf))
                out.append(("B", op, leaf, b))
            if op in arith:
                out.append(("U", "-", b))
    # arithmetic over comparison results (bool arithmetic must stay Python's / numpy's)
    cmps = [("B", c, ("L", "x"), ("L", "2")) for c in (">", "<=", "==")] + [("B", c, ("L", "z"), ("L", "0.5")) for c in (">", "!=")] + [("B", "<", ("L", "x"), ("L", "z"))]
    for op in ["+", "-", "*"]:
        for a in cmps:
            for b in cmps:
                out.append(("B", op, a, b))
            out.append(("B", op, a, ("L", "2")))
            out.append(("B", op, ("L", "x"), a))
    # long integer literals (ids, nanosecond time stamps) are exact in Python
    for big in ("9007199254740993", "1700000000123456789", "123456789012345678901"):
        out += [("B", "-", ("L", "x"), ("L", big)), ("B", "+", ("L", big), ("L", "z")), ("B", "==", ("L", "x"), ("L", big)), ("B", "*", ("U", "-", ("L", big)), ("L", "x"))]
    if tier != "quick":
        for op1 in arith:
            for op2 in arith:
                for op3 in arith:
                    out.append(("B", op1, ("B", op2, ("L", "x"), ("L", "z")), ("B", op3, ("L", "2"), ("L", "x"))))
    return out


def render(t, parent=0, side=None, minimal=True):
    """Python text of the tree with the parentheses Python needs (minimal) -- so Python's eval of the
    text IS the tree"""
    if t[0] == "L":
        return t[1]
    if t[0] == "U":
        inner = render(t[2], PREC["u"], "u")
        s = f"{t[1]}{inner}"
        # unary binds looser than ** on its right operand position: -x**2 is -(x**2);
        need = parent > PREC["u"] or (parent == PREC["**"] and side == "l")
        return f"({s})" if need else s
    op = t[1]
    p = PREC[op]
    if op == "**":
        l = render(t[2], p, "l")
        if t[2][0] == "B" or t[2][0] == "U":
            l = l if l.startswith("(") else f"({l})"
        r = render(t[3], p, "r")
        if t[3][0] == "B" and t[3][1] != "**":
            r = r if r.startswith("(") else f"({r})"
        s = f"{l} ** {r}"
        need = parent > p or (parent == p and side == "l")
    else:
        l = render(t[2], p, "l")
        r = render(t[3], p, "r")
        if t[3][0] == "B" and PREC[t[3][1]] == p:  # left-assoc: parenthesise equal-precedence right operands
            r = r if r.startswith("(") else f"({r})"
        if p == 1 and t[2][0] == "B" and PREC[t[2][1]] == 1:  # no chained comparisons
            l = l if l.startswith("(") else f"({l})"
        s = f"{l} {op} {r}"
        need = parent > p or (parent == p and side == "r") or (parent == PREC["u"])
    return f"({s})" if need else s


def noisy(text):
    """the same text with irregular whitespace"""
    out = text.replace(" ", "")
    out = re.sub(r"(\*\*|==|!=|<=|>=|[+\-*/<>])", r"  \1 ", out)
    return out.replace("(", "( ").replace(")", " )")


def flags(t):
    """structural markers of a tree: unary sign over a power; chained power"""
    f = {"unary_over_pow": False, "pow_chain": False, "needs_parens": False}

    def walk(n):
        if n[0] == "U":
            if n[2][0] == "B" and n[2][1] == "**":
                f["unary_over_pow"] = True
            walk(n[2])
        elif n[0] == "B":
            if n[1] == "**" and (n[3][0] == "B" and n[3][1] == "**"):
                f["pow_chain"] = True
            if n[1] == "**" and n[2][0] == "U":
                pass
            walk(n[2])
            walk(n[3])

    walk(t)
    f["needs_parens"] = "(" in render(t)
    return f


def formula_reading(text):
    """fully parenthesised Python text of how the documented FORMULA grammar reads the expression
    (unary sign binds tighter than **, every binary operator left-associative)"""
    from formulae.scanner import Scanner

    from vf.oracles import refparse

    toks = Scanner(text).scan(add_intercept=False)
    tree = refparse.ref_parse(toks)

    def txt(n):
        k = n[0]
        if k in ("var", "lit"):
            return toks[n[1]].lexeme
        if k == "un":
            return f"({toks[n[1]].lexeme}{txt(n[2])})"
        if k == "bin":
            return f"({txt(n[2])} {toks[n[1]].lexeme} {txt(n[3])})"
        raise ValueError(n)

    return txt(tree)


def formula_minimal(text):
    """the expression re-written with exactly the parentheses the documented FORMULA grammar needs
    (precedence: comparisons < + - < * / < ** < unary sign; binary operators left-associative):
    redundant parentheses do not belong to the name of a term"""
    from formulae.scanner import Scanner

    from vf.oracles import refparse

    toks = Scanner(text).scan(add_intercept=False)
    tree = refparse.ref_parse(toks)
    PR = {"==": 1, "!=": 1, "<": 1, "<=": 1, ">": 1, ">=": 1, "+": 2, "-": 2, "*": 3, "/": 3, "**": 4}

    def txt(n):
        """returns (text, precedence)"""
        k = n[0]
        if k in ("var", "lit"):
            return toks[n[1]].lexeme, 9
        if k == "un":
            t, p = txt(n[2])
            return toks[n[1]].lexeme + (f"({t})" if p < 5 else t), 5
        if k == "bin":
            op = toks[n[1]].lexeme
            p = PR[op]
            lt, lp = txt(n[2])
            rt, rp = txt(n[3])
            return (f"({lt})" if lp < p else lt) + f" {op} " + (f"({rt})" if rp <= p else rt), p
        raise ValueError(n)

    return txt(tree)[0]


def cases(tier):
    ts = trees(tier)
    out = [("expr", i) for i in range(len(ts))]
    out += [("call", k) for k in range(len(CALLS))]
    return out


CALLS = [
    "rec(x)", "rec(x, 2)", "rec(x, k=z)", "rec(x + z, k=x * 2)", "rec(rec2(x))", "rec(rec2(x, 3), k=rec2(z))", "rec(x, 'a')", 'rec(x, "b")', "rec(x, k='a')", "rec(x, True)", "rec(x, None)", "rec(x, k=False)",
    "rec(x, 0.5, k=None)", "rec(-x, k=-2)", "rec(x, k = z)", "rec( x,2 )", "rec(x,k=z)", "rec(x ,  'a')", "rec(x, 'a b')", "rec(x, 'a  b')", "rec(x, '\t')", "rec(x, s='ab', k=2)", "rec(x, z=1, a=z, m='q')", "rec(x, k=`z`)", "rec(x, k=(x + z) * 2)", "rec((x + z) * 2, k=x + z * 2)",
]


def signature(case, v):
    info = v.get("info") or {}
    sig = {"kind": case[0], "text": info.get("text"), "what": v["label"].split(" [")[0]}
    for k in ("unary_over_pow", "pow_chain", "reading", "observed_name", "only_parentheses_differ", "exc", "site"):
        if k in info:
            sig[k] = info[k]
    return sig


def harness(env, case):
    from formulae import design_matrices

    kind, idx = case
    x = env.column("x", N)
    z = env.column("z", N)
    y = env.column("y", N)
    if env.mode == "conc":
        # keep powers / divisions of the plain-float replay in the real domain
        x = 0.5 + np.abs(x) % 2.0
        z = 0.5 + np.abs(z) % 2.0
    df = env.frame({"y": y, "x": x, "z": z})
    log = []

    def rec(a, *args, **kw):
        log.append(("rec", a, args, tuple(sorted(kw.items(), key=lambda p: p[0]))))
        return a * 1

    def rec2(a, *args, **kw):
        log.append(("rec2", a, args, tuple(sorted(kw.items(), key=lambda p: p[0]))))
        return a + 1

    ns = {"rec": rec, "rec2": rec2}
    if kind == "expr":
        t = trees(harness.tier)[idx]
        text = render(t)
        fl = flags(t)
        call = f"I({text})"
    else:
        text = CALLS[idx]
        fl = {}
        call = text
    info = dict(fl, text=call)
    if re.search(r"/ \((\S+) - \1\)", call):
        return  # division by a constant zero

    def build(c):
        log.clear()
        with env.running():
            dm = design_matrices(f"y ~ {c}", df, extra_namespace=ns)
        names = [n for n in dm.common.terms if n != "Intercept"]
        return dm, names, list(log)

    def pyeval(c):
        log.clear()
        env_py = {"x": df["x"], "z": df["z"], "rec": rec, "rec2": rec2, "I": (lambda v: v), "True": True, "False": False, "None": None}
        with env.running():
            val = eval(c, {"__builtins__": {}}, env_py)  # noqa: S307 -- Python's own reading of the text
        return val, list(log)

    # Python's value first (if Python itself refuses the text, the case is skipped)
    try:
        want, wlog = pyeval(call)
    except symx.PathEnd:
        raise
    except symx.Inconclusive:
        raise
    except Exception:
        return
    if np.ndim(want) == 0:
        return  # a constant expression is not a column: nothing to compare
    try:
        dm, names, rlog = build(call)
    except symx.PathEnd:
        raise
    except symx.Inconclusive:
        raise
    except Exception as e:
        env.fail("a call that Python evaluates cannot be evaluated", dict(info, exc=type(e).__name__, site=core.repo_site(e), msg=str(e)[:120]))
        return
    got = np.asarray(dm.common.design_matrix)[:, 1:]
    want_arr = np.asarray(want)
    if want_arr.ndim == 0:
        want_arr = np.array([want] * N, dtype=object)
    same = env.same(got.reshape(-1), np.asarray(want_arr, dtype=object).reshape(-1).astype(object) if want_arr.dtype != bool else want_arr.astype(int).reshape(-1))
    if same:
        env.ok("value of the call term == Python's eval of the same text")
    else:
        # which reading does the implementation follow?
        reading = "other"
        if kind == "expr":
            try:
                alt, _ = pyeval(f"I({formula_reading(text)})")
                alt = np.asarray(alt)
                if env.same(got.reshape(-1), alt.reshape(-1) if alt.dtype != bool else alt.astype(int).reshape(-1)):
                    reading = "formula-grammar"
            except symx.PathEnd:
                raise
            except symx.Inconclusive:
                raise
            except Exception:  # noqa
                pass
        env.prove_equal(got.reshape(-1), np.asarray(want_arr).reshape(-1) if want_arr.dtype != bool else want_arr.astype(int).reshape(-1),
                        "value of the call term == Python's eval of the same text", dict(info, reading=reading))
    # recording functions saw the same arguments
    if kind == "call":
        ok = len(rlog) == len(wlog)
        if ok:
            for (n1, a1, p1, k1), (n2, a2, p2, k2) in zip(rlog, wlog):
                if n1 != n2 or len(p1) != len(p2) or [k for k, _ in k1] != [k for k, _ in k2]:
                    ok = False
                    break
                for u, w in list(zip(p1, p2)) + [(u[1], w[1]) for u, w in zip(k1, k2)] + [(a1, a2)]:
                    if isinstance(u, (pd.Series, np.ndarray)) or isinstance(w, (pd.Series, np.ndarray)):
                        if not env.same(np.asarray(u).reshape(-1), np.asarray(w).reshape(-1)):
                            ok = False
                    elif not (u is w or (type(u) is type(w) and u == w)):
                        ok = False
        env.prove(ok, "recording functions receive the positional / keyword arguments Python would pass", info)
    # name: the source text normalised to single spaces, quote style preserved
    def norm(t):
        t = re.sub(r"\s+", " ", t)
        t = re.sub(r"\(\s+", "(", t)
        t = re.sub(r"\s+\)", ")", t)
        t = re.sub(r"\s*,\s*", ", ", t)
        return re.sub(r"(\w)\s*=\s*(?!=)", r"\1=", t) if kind == "call" else t

    # normalise outside string literals only (their content is preserved verbatim)
    parts = re.split(r"('[^']*'|\"[^\"]*\")", call)
    expected = "".join(p if i % 2 else norm(p) for i, p in enumerate(parts))
    if kind == "expr":
        expected = f"I({formula_minimal(text)})"  # redundant parentheses are not part of the name
    if not env.prove(len(names) == 1, "one term", info):
        return
    strip = lambda t: t.replace("(", "").replace(")", "")  # noqa
    env.prove(names[0] == expected, "term name == source text normalised to single spaces (quotes and necessary parentheses preserved)",
              dict(info, observed_name=names[0], expected_name=expected, only_parentheses_differ=(names[0] != expected and strip(names[0]) == strip(expected))))
    # whitespace variants are the same term
    if kind == "expr":
        try:
            _, names2, _ = build(f"I({noisy(text)})")
            env.prove(names2 == names, "textual (whitespace) variants of one call are one term", info)
        except symx.PathEnd:
            raise
        except symx.Inconclusive:
            raise
        except Exception as e:
            env.fail("whitespace variant cannot be evaluated", dict(info, exc=type(e).__name__))
        # {e} is exactly I(e)
        try:
            dm3, names3, _ = build("{" + text + "}")
            env.prove(names3 == names and env.same(np.asarray(dm3.common.design_matrix)[:, 1:].reshape(-1), got.reshape(-1)), "{expr} is exactly I(expr)", info)
        except symx.PathEnd:
            raise
        except symx.Inconclusive:
            raise
        except Exception as e:
            env.fail("{expr} cannot be evaluated although I(expr) can", dict(info, exc=type(e).__name__))


harness.tier = "quick"


PAIRS = [("rec(x, k=2)", "rec(x, k=3)"), ("rec(x, 2)", "rec(x, 3)"), ("rec(x, k='a')", "rec(x, k='b')"), ("rec(x, k='a')", 'rec(x, k="a")'), ("rec(x, k=z)", "rec(x, j=z)"), ("rec(x)", "rec2(x)"),
         ("rec(x, k=True)", "rec(x, k=False)"), ("rec(x, 2, k=1)", "rec(x, 2, k=2)"), ("rec(rec2(x, 1))", "rec(rec2(x, 2))"), ("rec(x, k=None)", "rec(x)"), ("I(x + 1)", "I(x + 2)"), ("rec(x, k=z)", "rec(z, k=x)"),
         # the same operands in another order are another text (for strings '+' is concatenation), other operators, other nesting
         ("rec(x + z)", "rec(z + x)"), ("I(x * z)", "I(z * x)"), ("I(x - z)", "I(z - x)"), ("I(x + z)", "I(x - z)"), ("rec(x, z)", "rec(z, x)"), ("rec(x, k=1, j=2)", "rec(x, k=2, j=1)"),
         ("I((x + z) * 2)", "I(x + z * 2)"), ("rec(x == 1)", "rec(x != 1)"), ("rec(x < z)", "rec(x <= z)"), ("rec(-x)", "rec(x)"), ("rec(x, 'a b')", "rec(x, 'a  b')"),
         # literals that are equal in Python but of another type are other arguments; nested calls
         ("rec(x, 1)", "rec(x, True)"), ("rec(x, 1)", "rec(x, 1.0)"), ("rec(x, 0)", "rec(x, False)"), ("rec(x, 1)", "rec(x, '1')"), ("rec(rec2(x))", "rec(x)"), ("rec(x)", "rec(rec2(x))")]


def distinct_calls(rep):
    """two different calls in one formula are two terms (set algebra must not merge them)"""
    from formulae import model_description

    for a, b in PAIRS:
        for op in ("+", ":"):
            f = f"y ~ {a} {op} {b}"
            try:
                m = model_description(f)
            except Exception as e:  # noqa
                rep.violations.append({"label": "formula with two different calls cannot be described", "signature": {"kind": "pair", "what": "two different calls cannot be combined", "formula": f, "exc": type(e).__name__},
                                       "replay": {"formula": f}, "reproduced": True, "detail": f"{type(e).__name__}: {e}"})
                continue
            terms = [t for t in m.common_terms if t.name != "Intercept"]
            n_atoms = sum(len(t.components) for t in terms)
            if n_atoms != 2:
                rep.violations.append({"label": "different calls are merged into one term", "signature": {"kind": "pair", "what": "different calls are merged into one term", "formula": f},
                                       "replay": {"formula": f, "terms": [t.name for t in terms]}, "reproduced": True, "detail": f"{f} -> {[t.name for t in terms]}"})
    rep.extra["call_pairs"] = len(PAIRS) * 2


def array_results(rep):
    """a call that returns a 2-D array (or a Series) contributes exactly that array, for frames of
    one, two and three rows (plain API; the symbolic cases use N = 2 rows)"""
    from formulae import design_matrices

    fns = {"two": lambda a, b: np.column_stack([a, b]), "col": lambda a: np.asarray(a).reshape(-1, 1) * 2.0, "ser": lambda a: pd.Series(np.asarray(a) + 1.0),
           "three": lambda a, b: np.column_stack([a, b, np.asarray(a) - np.asarray(b)])}
    n = 0
    for rows in (1, 2, 3):
        x = np.array([1.5, -2.0, 4.0][:rows]); z = np.array([0.25, 3.0, -7.0][:rows])
        df = pd.DataFrame({"y": np.arange(rows) + 0.5, "x": x, "z": z})
        for call, want in (("two(x, z)", np.column_stack([x, z])), ("col(x)", (x * 2.0).reshape(-1, 1)), ("ser(z)", (z + 1.0).reshape(-1, 1)), ("three(x, z)", np.column_stack([x, z, x - z]))):
            for icpt in ("0 + ", ""):
                n += 1
                f = f"y ~ {icpt}{call}"
                sig = {"kind": "array result", "what": "array-valued call", "formula": f, "rows": rows}
                try:
                    dm = design_matrices(f, df, extra_namespace=fns)
                    got = np.asarray(dm.common[call], dtype=float)
                    full = np.asarray(dm.common.design_matrix)
                except Exception as e:  # noqa
                    rep.violations.append({"label": "a call returning an array is refused", "signature": dict(sig, exc=type(e).__name__), "replay": {"formula": f, "rows": rows}, "reproduced": True, "detail": f"{f} on {rows} row(s): {type(e).__name__}: {e}"[:250]})
                    continue
                got = got.reshape(rows, -1) if got.ndim == 1 and want.shape[1] == 1 else got
                if got.shape != want.shape or not np.array_equal(got, want) or full.shape != (rows, want.shape[1] + (0 if icpt else 1)):
                    rep.violations.append({"label": "a call returning an array contributes exactly that array", "signature": sig, "replay": {"formula": f, "rows": rows, "got": got.tolist(), "want": want.tolist()}, "reproduced": True,
                                           "detail": f"{f} on {rows} row(s): got shape {got.shape} / matrix {full.shape}, want {want.shape}"[:250]})
    rep.extra["array_results"] = n


def name_collisions(rep, tier):
    """texts with different Python trees must give different names (decided on the plain API)"""
    from formulae import model_description

    seen = {}
    n = 0
    for t in trees(tier):
        text = render(t)
        try:
            m = model_description(f"y ~ I({text})")
        except Exception:  # noqa
            continue
        name = [c.name for c in m.common_terms if c.name != "Intercept"][0]
        n += 1
        if name in seen and seen[name] != text:
            try:
                same_formula_tree = formula_minimal(seen[name]) == formula_minimal(text)
            except Exception:  # noqa
                same_formula_tree = False
            sig = {"kind": "collision", "what": "different calls share one term name", "pair_only_differs_in_parentheses": seen[name].replace("(", "").replace(")", "") == text.replace("(", "").replace(")", ""),
                   "same_tree_under_the_formula_grammar": same_formula_tree}
            rep.violations.append({"label": sig["what"], "signature": sig, "replay": {"a": seen[name], "b": text, "name": name}, "reproduced": True, "detail": f"I({seen[name]}) and I({text}) are both named {name}"})
        else:
            seen.setdefault(name, text)
    rep.extra["names_compared"] = n


def run(tier, seed):
    harness.tier = tier
    rep = core.Report(ID, tier, seed)
    rep.functions = ["formulae.terms.call_resolver.CallResolver.visit*, LazyOperator/LazyCall/LazyValue/LazyVariable.eval/__str__", "formulae.parser.Parser (comparison/addition/multiplication/multiple_interaction/unary/call/primary inside calls, Assign, { } -> I( ))",
                     "formulae.scanner.Scanner (number, floatnum, char, identifier literals)", "formulae.terms.call.Call.set_type/eval_numeric, formulae.transforms.I"]
    cs = cases(tier)
    rep.bounds = {"argument expressions": f"{len(trees(tier))} operator trees (depth <= 2 complete over leaves {leaves(tier)}, unary + -, the 11 binary operators; a slice of depth 3) rendered with the parentheses Python needs", "call forms": CALLS, "rows": N, "cases": len(cs)}
    rep.outside = ["chained comparisons (a < b < c): Python's own semantics (and) is not elementwise", "expressions deeper than the bound; bitwise / floor-division / modulo operators (not in the call grammar)", "floats"]
    rep.stubs = pipe.STUBS
    rep.assumptions = ["oracle = Python's eval of the same text on the same symbolic columns", "division: divisor != 0; x ** non-integer and symbolic exponents are uninterpreted (same symbol on both sides)"]
    rep.rule = "one case = one argument expression / call form; comparisons fork per row; non-trivial = Python evaluates the text"
    import os

    os.environ["C12_TIER"] = tier
    pipe.run_cases(rep, "vf.props.c12", "harness", cs)
    name_collisions(rep, tier)
    distinct_calls(rep)
    array_results(rep)
    rep.nontrivial = rep.cases
    return core.finish(rep)


import os as _os

harness.tier = _os.environ.get("C12_TIER", "quick")
