"""Running the real design_matrices pipeline on symbolic numeric cells.

``Env`` is the bridge between a harness and the two ways it is executed:
  * mode 'sym' : numeric cells are ``symx.Sym`` (object columns), obligations go to z3;
  * mode 'conc': numeric cells are plain float64 taken from a solver model (replay on the
                 unmodified public API, no stubs, no symbolic machinery); obligations are
                 compared numerically.
A harness is written once against ``Env`` and is used for both.
"""
import contextlib
import math
import warnings
from fractions import Fraction

import numpy as np
import pandas as pd
import z3

from vf import symx

STUBS = [
    "pandas.api.types.is_numeric_dtype as imported into formulae.terms.variable / formulae.terms.call / formulae.transforms returns True for object columns whose cells are symx.Sym (pandas classifies by dtype; an object column would be 'categoric')",
    "formulae.transforms.np replaced by a delegating shim: mean/std/sum/min/max/power/sqrt first turn a pandas Series of Sym into its object ndarray (Series.mean on object dtype tries complex()); np.empty allocates dtype=object when symbolic values are live (Polynomial.eval work buffer)",
    "logging handlers of 'formulae' silenced",
]


def _has_sym(x):
    try:
        if isinstance(x, pd.Series):
            x = x.values
        if isinstance(x, np.ndarray) and x.dtype == object:
            seen = 0
            for v in x.ravel():
                if isinstance(v, (symx.Sym, symx.SymB)):
                    return True
                if v is None or (isinstance(v, float) and v != v):
                    continue  # missing cells say nothing about the column
                seen += 1
                if seen >= 4:
                    break
    except Exception:  # noqa
        pass
    return False


class _NpShim:
    """delegates to numpy; reductions on Series-of-Sym go through the object ndarray"""

    def __init__(self):
        self._np = np
        self.symbolic = False

    def __getattr__(self, name):
        return getattr(self._np, name)

    def _arr(self, x):
        if isinstance(x, pd.Series) and x.dtype == object:
            return x.values
        return x

    def mean(self, x, *a, **k):
        return self._np.mean(self._arr(x), *a, **k)

    def std(self, x, *a, **k):
        x = self._arr(x)
        if _has_sym(x):
            # numpy's object-dtype std: sqrt(mean((x-mean)**2)) through the same ufunc loop
            m = self._np.mean(x)
            d = x - m
            v = self._np.sum(d * d) / len(x)
            return v.sqrt() if isinstance(v, symx.Sym) else math.sqrt(v)
        return self._np.std(x, *a, **k)

    def sum(self, x, *a, **k):
        return self._np.sum(self._arr(x), *a, **k)

    def min(self, x, *a, **k):
        return self._np.min(self._arr(x), *a, **k)

    def max(self, x, *a, **k):
        return self._np.max(self._arr(x), *a, **k)

    def power(self, x, k, *a, **kw):
        return self._np.power(self._arr(x), k, *a, **kw)

    def sqrt(self, x, *a, **k):
        if isinstance(x, symx.Sym):
            return x.sqrt()
        return self._np.sqrt(x, *a, **k)

    def empty(self, shape, *a, **k):
        if self.symbolic and "dtype" not in k and not a:
            return self._np.empty(shape, dtype=object)
        return self._np.empty(shape, *a, **k)

    def where(self, cond, *a, **k):
        cond = self._arr(cond)
        if isinstance(cond, np.ndarray) and cond.dtype == object:
            cond = self._np.array([bool(c) for c in cond.ravel()]).reshape(cond.shape)
        return self._np.where(cond, *a, **k)


_SHIM = _NpShim()
_installed = False


def install_stubs():
    global _installed
    if _installed:
        return
    import formulae.terms.call as FC
    import formulae.terms.variable as FV
    import formulae.transforms as FT
    from pandas.api.types import is_numeric_dtype as real_is_numeric

    def is_numeric_dtype(x):
        if _has_sym(x):
            return True
        if isinstance(x, symx.Sym):
            return True
        return real_is_numeric(x)

    FV.is_numeric_dtype = is_numeric_dtype
    FC.is_numeric_dtype = is_numeric_dtype
    FT.is_numeric_dtype = is_numeric_dtype
    FT.np = _SHIM
    _installed = True


@contextlib.contextmanager
def symbolic_numpy():
    old = _SHIM.symbolic
    _SHIM.symbolic = True
    try:
        yield
    finally:
        _SHIM.symbolic = old


# ---------------------------------------------------------------------------------------------
def frac(v):
    """model value (int / 'p/q' / decimal string) -> float"""
    if isinstance(v, (int, float)):
        return float(v)
    s = str(v)
    try:
        return float(Fraction(s))
    except Exception:  # noqa
        return float(s.rstrip("?"))


class Env:
    def __init__(self, c=None, model=None, seed=0):
        self.c = c
        self.mode = "sym" if c is not None else "conc"
        self.model = model or {}
        self.failed = []  # conc mode: labels of failed obligations
        self.checked = 0
        self.seed = seed
        if self.mode == "sym":
            install_stubs()

    # -- values -------------------------------------------------------------------------
    def real(self, name, integer=False):
        if self.mode == "sym":
            return symx.Sym(z3.Int(name) if integer else z3.Real(name))
        if name in self.model:
            v = frac(self.model[name])
            return int(round(v)) if integer else v
        # unconstrained in the model: any value will do -> deterministic generic value
        h = (hash_str(name) % 1999) / 7.0 - 100.0
        return int(round(h)) if integer else h

    def column(self, name, n, integer=False):
        vals = [self.real(f"{name}_{i}", integer) for i in range(n)]
        if self.mode == "sym":
            a = np.empty(n, dtype=object)
            for i, v in enumerate(vals):
                a[i] = v
            return a
        return np.array(vals, dtype=np.int64 if integer else np.float64)

    def frame(self, cols):
        """cols: dict name -> array / list (already built).  Object arrays stay object."""
        d = {}
        for k, v in cols.items():
            if isinstance(v, np.ndarray) and v.dtype == object and self.mode == "sym" and len(v) and isinstance(v[0], (symx.Sym, float)):
                d[k] = pd.Series(v, dtype=object)
            else:
                d[k] = v
        return pd.DataFrame(d)

    # -- running the code under test ----------------------------------------------------
    @contextlib.contextmanager
    def running(self, symbolic=True):
        import io

        with warnings.catch_warnings(), contextlib.redirect_stdout(io.StringIO()):
            warnings.simplefilter("ignore")
            if self.mode == "sym" and symbolic:
                with symbolic_numpy():
                    yield
            else:
                yield

    # -- obligations --------------------------------------------------------------------
    def assume(self, cond, why):
        if self.mode == "sym":
            self.c.assume(cond, why)
        else:
            if isinstance(cond, (bool, np.bool_)) and not cond:
                raise symx.PathEnd()

    def prove_equal(self, A, B, label, info=None):
        """entrywise equality of two arrays (NaN == NaN)"""
        if self.mode == "sym":
            return symx.prove_equal(self.c, A, B, label, info)
        self.checked += 1
        A = np.asarray(A, dtype=float)
        B = np.asarray(B, dtype=float)
        ok = A.shape == B.shape and bool(np.allclose(A, B, rtol=1e-7, atol=1e-9, equal_nan=True))
        if not ok:
            self.failed.append(label)
        return ok

    def same(self, A, B):
        """are two arrays equal for every value on this path?  (no obligation recorded)"""
        if self.mode == "sym":
            d = symx.neq_terms(A, B)
            if not d:
                return True
            r = self.c._check_fresh(z3.Or(d), *self.c.lazy) if self.c.lazy else self.c._check(z3.Or(d))
            if r == "unknown":
                raise symx.Inconclusive("array comparison undecided")
            return r == "unsat"
        A = np.asarray(A, dtype=float)
        B = np.asarray(B, dtype=float)
        return A.shape == B.shape and bool(np.allclose(A, B, rtol=1e-7, atol=1e-9, equal_nan=True))

    def prove(self, cond, label, info=None):
        if self.mode == "sym":
            return self.c.prove(cond, label, info)
        self.checked += 1
        if isinstance(cond, symx.SymB):  # pragma: no cover
            raise TypeError("symbolic condition in concrete mode")
        if not bool(cond):
            self.failed.append(label)
        return bool(cond)

    def fail(self, label, info=None):
        """a violation established without the solver (e.g. unexpected exception)"""
        if self.mode == "sym":
            self.c.stats.obligations += 1
            self.c.stats.violated += 1
            self.c.reach(label)
            self.c.violations.append({"label": label, "model": self.c.model_of(), "info": info})
        else:
            self.checked += 1
            self.failed.append(label)

    def ok(self, label):
        if self.mode == "sym":
            self.c.prove(True, label)
        else:
            self.checked += 1


def hash_str(s):
    h = 0
    for ch in s:
        h = (h * 131 + ord(ch)) % 1000003
    return h


def run_symbolic(harness, case, timeout_ms=20000, max_paths=None):
    """explore harness(env, case) symbolically; returns the symx Context"""

    def h(c, case):
        harness(Env(c=c), case)

    return symx.explore(h, case, timeout_ms=timeout_ms, max_paths=max_paths)


def replay_concrete(harness, case, model, label=None):
    """re-run the harness on plain floats from the model.  reproduced iff an obligation fails
    (the same one if label is given)"""
    env = Env(model=model)
    try:
        harness(env, case)
    except symx.PathEnd:
        return False, "concrete run leaves the assumed region"
    if not env.failed:
        return False, f"all {env.checked} obligations hold on the plain API with the model's values"
    if label is not None and label not in env.failed:
        return True, f"plain API violates a different obligation: {env.failed[:3]}"
    return True, f"plain API violates: {env.failed[:3]}"


# ---------------------------------------------------------------------------------------------
# generic case runner for pipeline properties
# ---------------------------------------------------------------------------------------------
_HARNESS = {}


def _work_cases(job):
    from vf import core

    core.setup_paths()
    core.silence_logging()
    import importlib

    mod = importlib.import_module(job["module"])
    harness = getattr(mod, job["harness"])
    out = {"violations": [], "errors": [], "n": 0, "samples": []}
    tot = symx.Stats()
    for case in job["cases"]:
        try:
            c = run_symbolic(harness, case, timeout_ms=job.get("timeout_ms", 20000), max_paths=job.get("max_paths"))
        except symx.Inconclusive as e:
            out["errors"].append(f"{case}: {e}")
            continue
        except Exception as e:  # harness bug: never report as success
            import traceback

            out["errors"].append(f"harness error on {case}: {type(e).__name__}: {e} @ {traceback.format_exc().splitlines()[-30:]}")
            continue
        tot.merge(c.stats)
        out["n"] += 1
        if c.cross_smt2:
            cs = symx.second_solver(c.cross_smt2)
            for k, v in cs.items():
                if isinstance(v, int):
                    out.setdefault("cross", {})[k] = out.get("cross", {}).get(k, 0) + v
        # differential validation of the symbolic run: the same harness on plain floats through
        # the unmodified public API (no stubs) must satisfy every obligation as well
        if not c.violations and job.get("validate", True):
            try:
                env = Env(model={})
                harness(env, case)
                out["validated"] = out.get("validated", 0) + 1
                if env.failed:
                    out["errors"].append(f"symbolic run holds but the plain-float run of {case} violates {env.failed[:2]} (stub/encoding mismatch)")
            except symx.PathEnd:
                pass
            except Exception as e:  # noqa
                out["errors"].append(f"plain-float run of {case} raises {type(e).__name__}: {e}")
        if len(out["samples"]) < 2:
            out["samples"].append({"case": case, "paths": c.stats.paths, "obligations": c.stats.obligations})
        seen = set()
        for v in c.violations:
            key = v["label"]
            if key in seen:
                continue
            seen.add(key)
            if isinstance(v.get("info"), dict) and "defined" in v["info"]:
                v["model"] = dict(v["model"], _bits={sc: sc in v["info"]["defined"] for sc in ("data", "builtins", "locals", "globals", "extra", "none_winner")})
            if isinstance(v.get("info"), dict) and isinstance(v["info"].get("_replay"), dict):
                v["model"] = dict(v["model"], **v["info"]["_replay"])  # decisions of the path (history, ...)
            rep, detail = replay_concrete(harness, case, v["model"], v["label"])
            sig = mod.signature(case, v) if hasattr(mod, "signature") else {"case": repr(case), "what": v["label"]}
            out["violations"].append(
                {"label": v["label"], "signature": sig, "replay": {"case": case, "model": v["model"], "info": v.get("info")}, "reproduced": rep, "detail": detail}
            )
    out["stats"] = tot.as_dict()
    return out


def run_cases(rep, module, harness, cases, nchunks=64, timeout_ms=20000, max_paths=None):
    from vf import core

    cases = list(cases)
    chunks = [cases[i::nchunks] for i in range(nchunks)]
    jobs = [{"module": module, "harness": harness, "cases": ch, "timeout_ms": timeout_ms, "max_paths": max_paths} for ch in chunks if ch]
    results = core.pmap(_work_cases, jobs)
    for r in results:
        rep.add_stats(r["stats"])
        for e in r["errors"]:
            rep.inconclusive.append(e)
        for v in r["violations"]:
            rep.violations.append(v)
            rep.replayed += 1
        for s in r["samples"]:
            rep.add_sample(s)
        rep.cases += r["n"]
        rep.replayed += r.get("validated", 0)
        if r.get("cross"):
            agg = rep.extra.setdefault("second_solver", {"solver": "/usr/bin/z3 4.8.12", "checked": 0, "agree": 0, "unknown": 0, "disagree": 0, "errors": 0})
            for k, v in r["cross"].items():
                agg[k] = agg.get(k, 0) + v
            if agg["disagree"]:
                msg = "second solver (z3 4.8.12) answers sat on an obligation the primary solver discharged"
                if msg not in rep.inconclusive:
                    rep.inconclusive.append(msg)
    return results
