"""Shared generators: frames (complete factorials with symbolic numeric cells) and formula
families, plus the LabelMeaning oracle."""
import itertools
import re

import numpy as np
import pandas as pd

# declared (non-alphabetical) level orders; level counts pairwise different
LEVELS = {
    "f": ["b", "a"],
    "g": ["u", "t", "s"],
    "h": ["q", "p", "r", "o"],
    "k": [3, 1, 2],
    "kb": [1000002, 999999, 1000001],  # ids of seven digits
    "kf": [1000001.0, 0.5, 1000002.0],  # ids read as floats
}
LEVELS["kc"] = [3, 1, 2]  # numbers stored as a pandas categorical (by the harness that uses it)
LEVELS["inc"] = [">50K", "<=50K", "n/a", "St. Louis"]  # levels with punctuation and blanks
LEVELS["ws"] = ["b ", "b", " b", "b  ", "B"]  # level names that differ only by surrounding blanks or case
LEVELS["wid"] = [f"G{i:03d}" for i in range(260)]  # a grouping factor with a few hundred groups
NUMERIC_LEVELS = {"k": np.int64, "kb": np.int64, "kf": np.float64, "kc": np.int64}
NUMS = ["x", "z"]
CATS = ["f", "g", "h"]


def used_vars(formula):
    """variable names (from our fixed vocabulary) that occur in the formula text"""
    names = set(re.findall(r"[A-Za-z_][A-Za-z0-9_.]*", formula))
    return [v for v in ["y", "x", "z", "f", "g", "h", "k", "kb", "kf", "kc", "wid", "inc", "ws", "w", "n", "s", "w12", "q1"] if v in names]


def cat_rows(cats, order, reps=1):
    """complete factorial of the level sets of `cats` (list of names), in a given row order"""
    rows = [dict(zip(cats, combo)) for combo in itertools.product(*[sorted(LEVELS[c], key=str) for c in cats])]
    rows = rows * reps
    if order == "reversed":
        rows = rows[::-1]
    elif order == "scramble":
        n = len(rows)
        step = next(s for s in (7, 5, 3, 11, 13, 1) if n % s != 0 or n == 1) if n > 1 else 1
        rows = [rows[(i * step + 1) % n] for i in range(n)]
    return rows


def concrete_column(name, n):
    """deterministic generic float data (distinct, no ties, not sorted)"""
    from vf.pipe import hash_str

    base = hash_str(name) % 97
    return np.array([((base + 37 * i * i + 11 * i) % 101) / 4.0 - 7.0 + i * 0.125 for i in range(n)], dtype=float)


def build_frame(env, formula_vars, flavour="str", order="sorted", reps=1, min_rows=3, extra=None, prefix="", concrete=False):
    """returns (DataFrame, rows) where rows[i] is a dict of the cell values of row i.
    numeric cells are fresh symbols (env.real) named <prefix><var>_<i>"""
    cats = [v for v in formula_vars if v in LEVELS]
    rows = cat_rows(cats, order, reps) if cats else [dict() for _ in range(min_rows)]
    n = len(rows)
    cols = {}
    for v in formula_vars:
        if v in LEVELS:
            vals = [r[v] for r in rows]
            if v in NUMERIC_LEVELS:
                cols[v] = np.array(vals, dtype=NUMERIC_LEVELS[v])
            elif flavour == "str":
                cols[v] = vals
            elif flavour == "cat":
                cols[v] = pd.Categorical(vals, categories=LEVELS[v])
            elif flavour == "ord":
                # the declared order, plus a declared category that no row has (an empty bin, a filtered-out level)
                cols[v] = pd.Categorical(vals, categories=LEVELS[v][:1] + ["unused category"] + LEVELS[v][1:], ordered=True)
            else:
                raise ValueError(flavour)
        else:
            col = concrete_column(prefix + v, n) if concrete else env.column(prefix + v, n, integer=False)
            cols[v] = col
            for i in range(n):
                rows[i] = dict(rows[i])
                rows[i][v] = col[i]
    if extra:
        cols.update(extra)
    df = env.frame(cols)
    return df, rows


def level_order(var, flavour):
    """expected order of the levels of a categorical variable"""
    if var in NUMERIC_LEVELS or flavour in ("str", "cat"):
        return sorted(LEVELS[var], key=lambda v: v)
    return list(LEVELS[var])


# ---------------------------------------------------------------------------------------------
# LabelMeaning
# ---------------------------------------------------------------------------------------------
def split_top(s, sep):
    out, depth, cur = [], 0, ""
    for ch in s:
        if ch in "([":
            depth += 1
        elif ch in ")]":
            depth -= 1
        if ch == sep and depth == 0:
            out.append(cur)
            cur = ""
        else:
            cur += ch
    out.append(cur)
    return out


_CALLVAR = re.compile(r"^[CTS]\(\s*([A-Za-z_]\w*)")


def piece_value(piece, row):
    """value of one label piece on a data row (dict var -> cell)"""
    piece = piece.strip()
    if piece in ("Intercept", "1"):
        return 1
    m = re.match(r"^poly\((\w+), (\d+), raw=True\)(?:\[(\d+)\])?$", piece)
    if m and m.group(1) in row:
        # column k of the raw polynomial basis is the (k + 1)-th power (a one-column basis has no index)
        k = int(m.group(3)) if m.group(3) is not None else 0
        v = row[m.group(1)]
        out = v
        for _ in range(k):
            out = out * v
        return out
    m = re.match(r"^(.*)\[([^\[\]]*)\]$", piece)
    if m:
        name, level = m.group(1), m.group(2)
        cm = _CALLVAR.match(name)
        var = cm.group(1) if cm else name
        if var not in row:
            raise KeyError(f"label piece '{piece}' names unknown variable '{var}'")
        return 1 if str(row[var]) == level else 0
    if piece in row:
        return row[piece]
    raise KeyError(f"cannot interpret label piece '{piece}'")


def label_value(label, row):
    """meaning of a column label on a row: product of its pieces; e|g[l] is e on rows of
    group l and 0 elsewhere"""
    parts = split_top(label, "|")
    if len(parts) == 2:
        e, g = parts
        ind = 1
        for p in split_top(g, ":"):
            ind = ind * piece_value(p, row)
        if ind == 0:
            return 0
        return label_value(e, row)
    val = 1
    for p in split_top(label, ":"):
        v = piece_value(p, row)
        if isinstance(v, int) and v == 0:
            return 0
        val = val * v if not (isinstance(val, int) and val == 1) else v
    return val


def expected_matrix(labels, rows):
    M = np.empty((len(rows), len(labels)), dtype=object)
    for i, r in enumerate(rows):
        for j, l in enumerate(labels):
            M[i, j] = label_value(l, r)
    return M


def label_levels(label, raw=False):
    """list of (variable, level) pairs named in a label (raw: ((variable, piece name), level))"""
    out = []
    for part in split_top(label, "|"):
        for p in split_top(part, ":"):
            m = re.match(r"^(.*)\[([^\[\]]*)\]$", p.strip())
            if m:
                cm = _CALLVAR.match(m.group(1))
                var = cm.group(1) if cm else m.group(1)
                out.append(((var, m.group(1)) if raw else var, m.group(2)))
    return out


# ---------------------------------------------------------------------------------------------
# formula families
# ---------------------------------------------------------------------------------------------
def interactions(vars_, max_arity=3):
    """every ordered interaction of 1..max_arity distinct variables"""
    out = []
    for r in range(1, max_arity + 1):
        for combo in itertools.permutations(vars_, r):
            out.append(":".join(combo))
    return out
