import argparse
import importlib
import json
import os
import sys
import traceback

from vf import core


def main():
    ap = argparse.ArgumentParser()
    ap.add_argument("prop")
    ap.add_argument("--tier", default=os.environ.get("VERIF_TIER", "quick"), choices=["quick", "thorough"])
    ap.add_argument("--replay", default=None)
    a = ap.parse_args()
    core.setup_paths()
    core.silence_logging_early = True
    seed = int(os.environ.get("VERIF_SEED", "0"))
    mod = importlib.import_module(f"vf.props.{a.prop.lower()}")
    if a.replay:
        with open(a.replay) as f:
            v = json.load(f)
        rc = mod.replay_file(v)
        sys.exit(rc)
    try:
        rc = mod.run(a.tier, seed)
    except Exception:
        traceback.print_exc()
        print(f"INCONCLUSIVE property={a.prop} harness error")
        rc = core.EXIT_INCONCLUSIVE
    sys.exit(rc)


if __name__ == "__main__":
    main()
