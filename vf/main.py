import argparse
import importlib
import json
import os
import sys
import traceback

from vf import core


def replay(mod, prop, v):
    """re-run one recorded violation on the plain API of the current tree; exit 1 if it reproduces"""
    from vf import pipe

    core.silence_logging()
    r = v.get("replay", {})
    if hasattr(mod, "replay_file"):
        rep, detail = mod.replay_file(v)
    elif isinstance(r, dict) and "case" in r:
        case = r["case"]
        case = tuple(tuple(x) if isinstance(x, list) and prop in ("C07",) and False else x for x in case) if isinstance(case, list) else case
        hname = "harness_w" if hasattr(mod, "harness_w") else "harness"
        model = dict(r.get("model") or {})
        info = r.get("info") or {}
        if isinstance(info, dict) and isinstance(info.get("_replay"), dict):
            model.update(info["_replay"])
        if isinstance(info, dict) and "defined" in info:
            model["_bits"] = {sc: sc in info["defined"] for sc in ("data", "builtins", "locals", "globals", "extra", "none_winner")}
        rep, detail = pipe.replay_concrete(getattr(mod, hname), case, model, v.get("label"))
    else:
        print(f"no replay recipe in this file for {prop}")
        return core.EXIT_INCONCLUSIVE
    print(("REPRODUCED: " if rep else "not reproduced: ") + str(detail))
    if rep:
        print(f"VIOLATION property={prop} replay=(this file)")
    return core.EXIT_VIOLATION if rep else core.EXIT_OK


def main():
    ap = argparse.ArgumentParser()
    ap.add_argument("prop")
    ap.add_argument("--tier", default=os.environ.get("VERIF_TIER", "quick"), choices=["quick", "thorough"])
    ap.add_argument("--replay", default=None)
    a = ap.parse_args()
    core.setup_paths()
    core.silence_logging_early = True
    seed = int(os.environ.get("VERIF_SEED", "0"))
    mod = importlib.import_module(f"vf.props.{a.prop.lower()}")
    if a.replay:
        with open(a.replay) as f:
            v = json.load(f)
        sys.exit(replay(mod, a.prop, v))
    try:
        rc = mod.run(a.tier, seed)
    except Exception:
        traceback.print_exc()
        print(f"INCONCLUSIVE property={a.prop} harness error")
        rc = core.EXIT_INCONCLUSIVE
    sys.exit(rc)


if __name__ == "__main__":
    main()
