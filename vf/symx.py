"""symx -- a thin symbolic-value layer over z3 that lets the *real* formulae code run on
solver terms.

* ``Sym``   real/int valued scalar wrapping a z3 arithmetic term; arithmetic builds terms,
            comparisons give ``SymB``.
* ``SymB``  symbolic boolean; ``bool()`` is the fork point (asks the solver which outcomes are
            feasible under the current path condition).
* ``SymKind`` a finite-domain decision variable that is compared with strings (token kinds,
            characters); only split as finely as the code under test compares it.
* ``Explorer`` replay-based depth-first exploration of all feasible paths of a harness.

Every solver call has a timeout; ``unknown`` raises ``Inconclusive`` (never success).
"""
import os
import time
from fractions import Fraction

import z3

_CTX = None  # the active exploration context (one per process)
_CROSS_N = [0]


class Inconclusive(Exception):
    """solver returned unknown / timed out -- the run cannot claim anything"""


class PathEnd(BaseException):
    """raised to stop the current path (infeasible assumption, depth cut).  BaseException so
    that ``except Exception`` in code under test does not swallow it."""


class CutDepth(PathEnd):
    pass


def ctx():
    if _CTX is None:
        raise RuntimeError("no active symx context")
    return _CTX


# --------------------------------------------------------------------------------------------
# symbolic scalars
# --------------------------------------------------------------------------------------------
def _is_num(v):
    return isinstance(v, (int, float, Fraction)) and not isinstance(v, bool)


def _z(v):
    """python number / Sym -> z3 arithmetic term"""
    if isinstance(v, Sym):
        return v.e
    if isinstance(v, bool):
        return z3.IntVal(int(v))
    if isinstance(v, int):
        return z3.IntVal(v)
    if isinstance(v, Fraction):
        return z3.RealVal(str(v))
    if isinstance(v, float):
        if v != v:
            raise ValueError("nan has no z3 term")
        return z3.RealVal(str(Fraction(v)))
    # numpy scalars
    try:
        import numpy as np

        if isinstance(v, np.integer):
            return z3.IntVal(int(v))
        if isinstance(v, np.floating):
            return _z(float(v))
        if isinstance(v, np.bool_):
            return z3.IntVal(int(v))
    except ImportError:  # pragma: no cover
        pass
    raise TypeError(f"cannot turn {type(v)} into a z3 term")


def _isnan(v):
    return isinstance(v, float) and v != v


def _coerce(a, b):
    """make both terms the same sort (Int stays Int only if both are Int)"""
    if a.sort() == b.sort():
        return a, b
    if z3.is_int(a):
        a = z3.ToReal(a)
    if z3.is_int(b):
        b = z3.ToReal(b)
    return a, b


class Sym:
    """symbolic number"""

    __slots__ = ("e",)

    def __init__(self, e):
        self.e = e

    # -- construction helpers -----------------------------------------------------------
    @staticmethod
    def lift(v):
        return v if isinstance(v, Sym) else Sym(_z(v))

    def _bin(self, other, fn, swap=False):
        if isinstance(other, SymQ):
            return NotImplemented
        if _isnan(other):
            return float("nan")
        try:
            o = _z(other)
        except TypeError:
            return NotImplemented
        a, b = _coerce(self.e, o)
        if swap:
            a, b = b, a
        return Sym(fn(a, b))

    def __add__(self, o):
        return self._bin(o, lambda a, b: a + b)

    def __radd__(self, o):
        return self._bin(o, lambda a, b: a + b, True)

    def __sub__(self, o):
        return self._bin(o, lambda a, b: a - b)

    def __rsub__(self, o):
        return self._bin(o, lambda a, b: a - b, True)

    def __mul__(self, o):
        return self._bin(o, lambda a, b: a * b)

    def __rmul__(self, o):
        return self._bin(o, lambda a, b: a * b, True)

    def __neg__(self):
        return Sym(-self.e)

    def __pos__(self):
        return self

    def __abs__(self):
        return Sym(z3.If(self.e >= 0, self.e, -self.e))

    def __truediv__(self, o):
        if isinstance(o, SymQ):
            return NotImplemented
        if _isnan(o):
            return float("nan")
        try:
            d = _z(o)
        except TypeError:
            return NotImplemented
        return _divide(self.e, d)

    def __rtruediv__(self, o):
        if _isnan(o):
            return float("nan")
        try:
            n = _z(o)
        except TypeError:
            return NotImplemented
        return _divide(n, self.e)

    def __mod__(self, o):
        try:
            d = _z(o)
        except TypeError:
            return NotImplemented
        if z3.is_int(self.e) and z3.is_int(d):
            return Sym(self.e % d)
        # real mod 1 of a real term: uninterpreted (only used for equalities)
        return Sym(_uf("fmod", self.e, d))

    def __pow__(self, o):
        if isinstance(o, Sym):
            c = _const_value(o.e)
            if c is None:
                return Sym(_uf("pow", self.e, o.e))
            o = c
        if _isnan(o):
            return float("nan")
        if isinstance(o, float) and o == int(o):
            o = int(o)
        if isinstance(o, Fraction) and o.denominator == 1:
            o = int(o)
        try:
            import numpy as np

            if isinstance(o, np.integer):
                o = int(o)
        except ImportError:  # pragma: no cover
            pass
        if isinstance(o, int) and not isinstance(o, bool):
            if o >= 0:
                r = z3.IntVal(1) if z3.is_int(self.e) else z3.RealVal(1)
                for _ in range(o):
                    r = r * self.e
                return Sym(r)
            return Sym.lift(1) / (self ** (-o))
        return Sym(_uf("pow", self.e, _z(o)))

    def __rpow__(self, o):
        return Sym(_uf("pow", _z(o), self.e))

    def sqrt(self):
        """called by numpy's object-dtype ufunc protocol (np.sqrt / np.std)"""
        c = ctx()
        a = self.e if not z3.is_int(self.e) else z3.ToReal(self.e)
        a = canon_poly(a)  # canonical sum-of-monomials: equal sums share one root
        c.assume(a >= 0, "sqrt argument >= 0")
        key = ("sqrt", a.get_id())
        if key in c.div_cache:
            return Sym(c.div_cache[key])
        r = c.fresh_real("sqrt")
        c.define_lazy(z3.And(r >= 0, r * r == a), "sqrt(a) as fresh r with r>=0, r*r == a")
        c.div_cache[key] = r
        c.keep.append(a)
        return Sym(r)

    def exp(self):
        return Sym(_uf("exp", self.e))

    def log(self):
        return Sym(_uf("log", self.e))

    def conjugate(self):
        return self

    # -- comparisons --------------------------------------------------------------------
    def _cmp(self, o, fn):
        if isinstance(o, SymQ):
            return NotImplemented
        if _isnan(o):
            return False
        try:
            b = _z(o)
        except TypeError:
            return NotImplemented
        a, b = _coerce(self.e, b)
        return SymB(fn(a, b))

    def __eq__(self, o):
        return self._cmp(o, lambda a, b: a == b)

    def __ne__(self, o):
        if _isnan(o):
            return True
        return self._cmp(o, lambda a, b: a != b)

    def __lt__(self, o):
        return self._cmp(o, lambda a, b: a < b)

    def __le__(self, o):
        return self._cmp(o, lambda a, b: a <= b)

    def __gt__(self, o):
        return self._cmp(o, lambda a, b: a > b)

    def __ge__(self, o):
        return self._cmp(o, lambda a, b: a >= b)

    def __hash__(self):
        # equal values must hash equal; value equality is only known to the solver
        return 0

    def __bool__(self):
        return bool(self != 0)

    def __float__(self):
        raise TypeError("symbolic value forced to float (concretisation is not allowed here)")

    def __int__(self):
        raise TypeError("symbolic value forced to int (concretisation is not allowed here)")

    def __index__(self):
        raise TypeError("symbolic value used as index")

    def __repr__(self):
        return f"Sym({z3.simplify(self.e)})"

    __str__ = __repr__


class SymQ(Sym):
    """exact fraction e/d of two z3 terms (rational-function arithmetic, used in 'rational' mode):
    sums and products stay fractions, equalities and order comparisons are cross-multiplied, so
    obligations are polynomial identities (modulo the definitions of square-root symbols)"""

    __slots__ = ("d",)

    def __init__(self, e, d):
        self.e = e
        self.d = d

    @staticmethod
    def _parts(o):
        if isinstance(o, SymQ):
            return o.e, o.d
        if isinstance(o, Sym):
            return o.e, None
        return _z(o), None

    @staticmethod
    def _mk(n, d):
        if d is None:
            return Sym(n)
        return SymQ(n, d)

    def _addsub(self, o, sign, swap):
        if _isnan(o):
            return float("nan")
        try:
            b, bd = self._parts(o)
        except TypeError:
            return NotImplemented
        a, ad = self.e, self.d
        if z3.is_int(b):
            b = z3.ToReal(b)
        if swap:
            a, ad, b, bd = b, bd, a, ad
        if ad is not None and bd is not None and ad.get_id() == bd.get_id():
            return SymQ(a + b if sign > 0 else a - b, ad)
        an = a if bd is None else a * bd
        bn = b if ad is None else b * ad
        den = ad if bd is None else (bd if ad is None else ad * bd)
        return self._mk(an + bn if sign > 0 else an - bn, den)

    def __add__(self, o):
        return self._addsub(o, 1, False)

    def __radd__(self, o):
        return self._addsub(o, 1, True)

    def __sub__(self, o):
        return self._addsub(o, -1, False)

    def __rsub__(self, o):
        return self._addsub(o, -1, True)

    def __mul__(self, o):
        if _isnan(o):
            return float("nan")
        try:
            b, bd = self._parts(o)
        except TypeError:
            return NotImplemented
        if z3.is_int(b):
            b = z3.ToReal(b)
        den = self.d if bd is None else self.d * bd
        # cancel an identical factor: (a/d) * d
        if bd is None and b.get_id() == self.d.get_id():
            return Sym(self.e)
        return SymQ(self.e * b, den)

    __rmul__ = __mul__

    def __neg__(self):
        return SymQ(-self.e, self.d)

    def __abs__(self):
        raise TypeError("abs of a fraction is not supported")

    def __truediv__(self, o):
        try:
            b, bd = self._parts(o)
        except TypeError:
            return NotImplemented
        if z3.is_int(b):
            b = z3.ToReal(b)
        cv = _const_value(b) if bd is None else None
        if cv is not None:
            if cv == 0:
                raise ZeroDivisionError("division by constant zero")
            return SymQ(self.e * z3.RealVal(str(Fraction(1) / Fraction(cv))), self.d)
        ctx().assume(b != 0, "divisor != 0 (definedness of a/b)")
        num = self.e if bd is None else self.e * bd
        return SymQ(num, self.d * b)

    def __rtruediv__(self, o):
        a = _z(o)
        if z3.is_int(a):
            a = z3.ToReal(a)
        ctx().assume(self.e != 0, "divisor != 0 (definedness of a/b)")
        return SymQ(a * self.d, self.e)

    def __pow__(self, o):
        if isinstance(o, float) and o == int(o):
            o = int(o)
        if isinstance(o, int) and not isinstance(o, bool) and o >= 0:
            n, d = z3.RealVal(1), z3.RealVal(1)
            for _ in range(o):
                n, d = n * self.e, d * self.d
            return SymQ(n, d)
        raise TypeError("only non-negative integer powers of a fraction")

    def sqrt(self):
        c = ctx()
        n, d = canon_poly(self.e), canon_poly(self.d)
        key = ("sqrtq", n.get_id(), d.get_id())
        if key in c.div_cache:
            return Sym(c.div_cache[key])
        c.assume(n * d >= 0, "sqrt argument >= 0")
        r = c.fresh_real("sqrt")
        c.define_lazy(z3.And(r >= 0, r * r * d == n), "sqrt(n/d) as fresh r with r>=0, r*r*d == n")
        c.div_cache[key] = r
        c.keep.extend([n, d])
        return Sym(r)

    def _cross(self, o):
        """(lhs, rhs, den) with self ? o  <=>  lhs ? rhs after multiplying by den (den != 0)"""
        b, bd = self._parts(o)
        if z3.is_int(b):
            b = z3.ToReal(b)
        a, ad = self.e, self.d
        lhs = a if bd is None else a * bd
        rhs = b * ad
        den = ad if bd is None else ad * bd
        return lhs, rhs, den

    def _rel(self, o, kind):
        if _isnan(o):
            return kind == "ne"
        try:
            lhs, rhs, den = self._cross(o)
        except TypeError:
            return NotImplemented
        if kind == "eq":
            return SymB(lhs == rhs)
        if kind == "ne":
            return SymB(lhs != rhs)
        diff = (lhs - rhs) * den  # same sign as self - o (multiplied by den^2 > 0)
        return SymB({"lt": diff < 0, "le": diff <= 0, "gt": diff > 0, "ge": diff >= 0}[kind])

    def __eq__(self, o):
        return self._rel(o, "eq")

    def __ne__(self, o):
        return self._rel(o, "ne")

    def __lt__(self, o):
        return self._rel(o, "lt")

    def __le__(self, o):
        return self._rel(o, "le")

    def __gt__(self, o):
        return self._rel(o, "gt")

    def __ge__(self, o):
        return self._rel(o, "ge")

    def __hash__(self):
        return 0

    def __repr__(self):
        return f"SymQ({z3.simplify(self.e)} / {z3.simplify(self.d)})"

    __str__ = __repr__


_UFS = {}


def _uf(name, *args):
    args = [a if not z3.is_int(a) else z3.ToReal(a) for a in args]
    key = (name, len(args))
    if key not in _UFS:
        _UFS[key] = z3.Function(f"uf_{name}", *([z3.RealSort()] * (len(args) + 1)))
    return _UFS[key](*args)


def canon_poly(e):
    """canonical sum-of-monomials form (z3 rewriter): polynomials that are equal as polynomials
    become the identical AST"""
    return z3.simplify(e, som=True, som_blowup=1000000, sort_sums=True)


def _const_value(e):
    e = z3.simplify(e)
    if z3.is_int_value(e):
        return e.as_long()
    if z3.is_rational_value(e):
        return Fraction(e.numerator_as_long(), e.denominator_as_long())
    return None


def _divide(n, d):
    """division-free encoding: constant divisor -> multiply by the reciprocal; symbolic divisor
    -> fresh q with q*d == n under the recorded definedness assumption d != 0."""
    cv = _const_value(d)
    if cv is not None:
        if cv == 0:
            raise ZeroDivisionError("division by constant zero")
        if z3.is_int(n):
            n = z3.ToReal(n)
        return Sym(n * z3.RealVal(str(Fraction(1) / Fraction(cv))))
    c = ctx()
    if z3.is_int(n):
        n = z3.ToReal(n)
    if z3.is_int(d):
        d = z3.ToReal(d)
    if c.rational:
        c.assume(d != 0, "divisor != 0 (definedness of a/b)")
        return SymQ(n, d)
    n = canon_poly(n)  # canonical form: syntactically different but equal polynomials share one quotient
    d = canon_poly(d)
    key = (n.get_id(), d.get_id())
    if key in c.div_cache:
        return Sym(c.div_cache[key])
    c.assume(d != 0, "divisor != 0 (definedness of a/b)")
    q = c.fresh_real("quot")
    c.define_lazy(q * d == n, "a/b as fresh q with q*b == a")
    c.div_cache[key] = q
    c.keep.extend([n, d])
    return Sym(q)


class SymB:
    """symbolic boolean"""

    __slots__ = ("e", "ns", "kv", "_keep")

    def __init__(self, e, ns=False, kv=None):
        self.e = e
        self.ns = ns  # True: term is already in simplest form (skip z3.simplify)
        self.kv = kv  # (var name, frozenset of indices, domain size) for SymKind membership tests

    def __bool__(self):
        return ctx().branch(self.e, self.ns, self.kv)

    def _taint(self, o):
        for x in (self, o):
            if isinstance(x, SymB) and x.kv is not None:
                ctx().tainted.add(x.kv[0])

    def __and__(self, o):
        self._taint(o)
        return SymB(z3.And(self.e, _zb(o)))

    __rand__ = __and__

    def __or__(self, o):
        self._taint(o)
        return SymB(z3.Or(self.e, _zb(o)))

    __ror__ = __or__

    def __invert__(self):
        if self.kv is not None:
            name, idx, n = self.kv
            ck = ("not", self.e.get_id())
            r = _MEMBER_CACHE.get(ck)
            if r is None:
                r = SymB(z3.Not(self.e), True, (name, frozenset(range(n)) - idx, n))
                r._keep = self
                _MEMBER_CACHE[ck] = r
            return r
        return SymB(z3.Not(self.e))

    def __eq__(self, o):
        self._taint(o)
        return SymB(self.e == _zb(o))

    def __ne__(self, o):
        self._taint(o)
        return SymB(self.e != _zb(o))

    def __hash__(self):
        return 0

    # arithmetic on booleans (sum(booleans), np.where helpers)
    def _num(self):
        return Sym(z3.If(self.e, z3.IntVal(1), z3.IntVal(0)))

    def __add__(self, o):
        return self._num() + (o._num() if isinstance(o, SymB) else o)

    __radd__ = __add__

    def __mul__(self, o):
        return self._num() * (o._num() if isinstance(o, SymB) else o)

    __rmul__ = __mul__

    def __repr__(self):
        return f"SymB({z3.simplify(self.e)})"


def _zb(v):
    if isinstance(v, SymB):
        return v.e
    if isinstance(v, (bool,)):
        return z3.BoolVal(v)
    try:
        import numpy as np

        if isinstance(v, np.bool_):
            return z3.BoolVal(bool(v))
    except ImportError:  # pragma: no cover
        pass
    raise TypeError(f"cannot turn {type(v)} into a z3 bool")


_MEMBER_CACHE = {}
_KINDVAR_CACHE = {}
_REALISE_CACHE = {}


class SymKind:
    """finite-domain decision variable compared against strings.

    ``values`` is the list of concrete strings the variable ranges over; the variable itself is
    a z3 Int in ``range(len(values))``.  ``== s`` gives a SymB; character-class predicates give
    a SymB computed from class membership, so the code under test splits the domain only as
    finely as its own comparisons do.
    """

    __slots__ = ("var", "values", "name")

    def __init__(self, name, values, c=None):
        c = c or ctx()
        self.values = list(values)
        self.name = name
        ck = (name, len(self.values))
        if ck not in _KINDVAR_CACHE:
            v = z3.Int(name)
            _KINDVAR_CACHE[ck] = (v, z3.And(v >= 0, v < len(self.values)))
        self.var, rng = _KINDVAR_CACHE[ck]
        c.define(rng, None)

    def _member(self, pred, key=None):
        ck = (self.name, key, len(self.values)) if key is not None else None
        if ck is not None and ck in _MEMBER_CACHE:
            return _MEMBER_CACHE[ck]
        idx = [i for i, v in enumerate(self.values) if pred(v)]
        if not idx:
            r = SymB(z3.BoolVal(False), True)
        elif len(idx) == len(self.values):
            r = SymB(z3.BoolVal(True), True)
        else:
            r = SymB(z3.Or([self.var == i for i in idx]), True, (self.name, frozenset(idx), len(self.values)))
        if ck is not None:
            _MEMBER_CACHE[ck] = r
        return r

    def __eq__(self, o):
        if isinstance(o, SymKind):
            if o is self:
                return True
            c = ctx()
            c.tainted.add(self.name)
            c.tainted.add(o.name)
            pairs = [
                z3.And(self.var == i, o.var == j)
                for i, v in enumerate(self.values)
                for j, w in enumerate(o.values)
                if v == w
            ]
            return SymB(z3.Or(pairs) if pairs else z3.BoolVal(False))
        if isinstance(o, str):
            return self._member(lambda v: v == o, ("eq", o))
        return False

    def __ne__(self, o):
        r = self.__eq__(o)
        if isinstance(r, SymB):
            return ~r
        return not r

    def __hash__(self):
        return 0

    def isdigit(self):
        return bool(self._member(lambda v: v.isdigit(), "isdigit"))

    def isalpha(self):
        return bool(self._member(lambda v: v.isalpha(), "isalpha"))

    def isalnum(self):
        return bool(self._member(lambda v: v.isalnum(), "isalnum"))

    def isspace(self):
        return bool(self._member(lambda v: v.isspace(), "isspace"))

    def realise(self):
        """fork on every feasible concrete value and return it"""
        c = ctx()
        conds = _REALISE_CACHE.get((self.name, len(self.values)))
        if conds is None:
            conds = [self.var == i for i in range(len(self.values))]
            _REALISE_CACHE[(self.name, len(self.values))] = conds
        k = c.choose(conds, kind=(self.name, len(self.values)))
        return self.values[k]

    def __str__(self):
        return self.realise()

    def __repr__(self):
        return f"SymKind({self.name})"

    def __len__(self):
        return len(self.realise())

    def __getattr__(self, name):
        # any other str method: realise (fork per feasible value) and delegate
        if name.startswith("__"):
            raise AttributeError(name)
        return getattr(self.realise(), name)


# --------------------------------------------------------------------------------------------
# exploration context
# --------------------------------------------------------------------------------------------
class Stats:
    def __init__(self):
        self.paths = 0
        self.queries = 0
        self.solver_s = 0.0
        self.obligations = 0
        self.discharged = 0
        self.violated = 0
        self.unknown = 0
        self.cut_paths = 0
        self.trivial = 0  # obligations whose two sides are the identical hash-consed z3 term (no query needed)
        self.reach = {}

    def merge(self, o):
        for k in (
            "paths",
            "queries",
            "solver_s",
            "obligations",
            "discharged",
            "violated",
            "unknown",
            "cut_paths",
            "trivial",
        ):
            setattr(self, k, getattr(self, k) + getattr(o, k))
        for k, v in o.reach.items():
            self.reach[k] = self.reach.get(k, 0) + v

    def as_dict(self):
        return {
            "paths": self.paths,
            "solver_queries": self.queries,
            "solver_s": round(self.solver_s, 3),
            "obligations": self.obligations,
            "discharged": self.discharged,
            "violated": self.violated,
            "unknown": self.unknown,
            "cut_paths": self.cut_paths,
            "discharged_by_term_identity": self.trivial,
            "reach": dict(self.reach),
        }


class Context:
    """one exploration: holds the decision trail, the path condition and the solver"""

    def __init__(self, timeout_ms=20000, max_depth=None, prefix=None):
        self.timeout_ms = timeout_ms
        self.solver = z3.Solver()
        self.solver.set("timeout", timeout_ms)
        self.trail = []  # entries: [chosen, remaining(list), n_alternatives]
        if prefix:
            self.trail = [[p, [], None] for p in prefix]
        self.prefix_len = len(self.trail)
        self.sdepth = 0  # trail entries already asserted in the solver
        self.pos = 0
        self.pc = []
        self.max_depth = max_depth
        self.stats = Stats()
        self.assumptions = {}
        self.fresh_n = 0
        self.div_cache = {}
        self.decided = {}
        self.dom = {}
        self.tainted = set()
        self.propagated = 0
        self.prop_total = 0
        self.prop_crosschecked = 0
        self.lazy = []
        self.keep = []
        self.lazy_used = 0
        self.rational = False  # True: quotients are kept as exact fractions num/den (SymQ) instead of fresh variables
        self.cross_rate = int(os.environ.get("VERIF_CROSS_RATE", "0"))  # 0 = off; k = every k-th solver-discharged obligation
        self.cross_n = 0
        self.cross_smt2 = []
        self.cut_prefixes = []
        self.leftover = []
        self.violations = []  # filled by prove(): dicts with label, model

    # -- path management ----------------------------------------------------------------
    def start_path(self):
        self.pos = 0
        self.pc = []
        self.fresh_n = 0
        self.div_cache = {}
        self.decided = {}
        self.dom = {}
        self.tainted = set()
        self.propagated = 0
        self.lazy = []
        self.keep = []

    def backtrack(self):
        """advance the trail to the next unexplored path; False when exhausted"""
        while len(self.trail) > self.prefix_len and not self.trail[-1][1]:
            self.trail.pop()
        if len(self.trail) <= self.prefix_len:
            return False
        e = self.trail[-1]
        e[0] = e[1].pop(0)
        j = len(self.trail) - 1
        while self.sdepth > j:
            self.solver.pop()
            self.sdepth -= 1
        return True

    def fresh_real(self, tag):
        self.fresh_n += 1
        return z3.Real(f"_{tag}{self.fresh_n}")

    def fresh_int(self, tag):
        self.fresh_n += 1
        return z3.Int(f"_{tag}{self.fresh_n}")

    # -- solver plumbing ----------------------------------------------------------------
    def _check(self, *extra):
        t0 = time.time()
        if extra:
            self.solver.push()
            self.solver.add(*extra)
        r = self.solver.check()
        if extra:
            self.solver.pop()
        self.stats.queries += 1
        self.stats.solver_s += time.time() - t0
        return str(r)

    def _record(self, cond):
        """a decision at trail position self.pos has been taken with condition cond"""
        i = self.pos
        if i >= self.sdepth:
            # assert every pending condition up to and including i
            assert i == self.sdepth, (i, self.sdepth)
            self.solver.push()
            if cond is not None:
                self.solver.add(cond)
            self.sdepth += 1
        if cond is not None:
            self.pc.append(cond)
        self.pos += 1

    def choose(self, conds, kind=None):
        """n-way fork. conds[i] is a z3 Bool (or None = unconditional). Returns the index of
        the alternative followed on this path; the other feasible ones are scheduled."""
        i = self.pos
        if kind is not None and kind[0] not in self.tainted:
            D = self.dom.get(kind[0])
            if D is None:
                D = frozenset(range(kind[1]))
            if len(D) == 1:
                return next(iter(D))
            if i < len(self.trail):
                k = self.trail[i][0]
            else:
                if self.max_depth is not None and self._fork_depth() >= self.max_depth:
                    self.cut_prefixes.append([e[0] for e in self.trail])
                    self.stats.cut_paths += 1
                    raise CutDepth()
                feas = sorted(D)
                self.trail.append([feas[0], feas[1:], len(conds)])
                k = feas[0]
                self.propagated += 1
            self.dom[kind[0]] = frozenset([k])
            self._record(conds[k])
            return k
        if i < len(self.trail):
            k = self.trail[i][0]
            self._record(conds[k])
            return k
        if self.max_depth is not None and self._fork_depth() >= self.max_depth:
            self.cut_prefixes.append([e[0] for e in self.trail])
            self.stats.cut_paths += 1
            raise CutDepth()
        feas = []
        for k, c in enumerate(conds):
            if c is None:
                feas.append(k)
                continue
            s = z3.simplify(c)
            if z3.is_true(s):
                feas.append(k)
                continue
            if z3.is_false(s):
                continue
            r = self._check(c)
            if r == "sat":
                feas.append(k)
            elif r == "unknown":
                self.stats.unknown += 1
                raise Inconclusive(f"feasibility unknown for {c}")
        if not feas:
            raise PathEnd()
        self.trail.append([feas[0], feas[1:], len(conds)])
        self._record(conds[feas[0]])
        return feas[0]

    def _fork_depth(self):
        return sum(1 for e in self.trail[self.prefix_len :] if e[2] is not None and e[2] > 1)

    def branch(self, e, nosimp=False, kv=None):
        """binary fork on a z3 Bool"""
        eid = e.get_id()
        d = self.decided.get(eid)
        if d is not None:
            return d
        if kv is not None and kv[0] not in self.tainted:
            r = self._branch_kind(e, kv)
            self.decided[eid] = r
            return r
        if not nosimp:
            s = z3.simplify(e)
            if z3.is_true(s):
                return True
            if z3.is_false(s):
                return False
        elif z3.is_true(e):
            return True
        elif z3.is_false(e):
            return False
        r = self._branch(e)
        self.decided[eid] = r
        return r

    def _branch_kind(self, e, kv):
        """membership test on a finite-domain variable that is only constrained by unary
        membership constraints: feasibility of either outcome is decided by intersecting
        the variable's current domain (exact for independent unary constraints).  The
        constraint is still asserted in the solver; every completed path is confirmed sat by
        z3 and every 512th propagated decision is cross-checked against z3."""
        name, idx, n = kv
        D = self.dom.get(name)
        if D is None:
            D = frozenset(range(n))
        inter = D & idx
        self.prop_total += 1
        if self.prop_total % 512 == 0:
            self._crosscheck(e, bool(inter), inter != D)
        if not inter:
            return False
        if inter == D:
            return True
        self.propagated += 1
        i = self.pos
        if i < len(self.trail):
            k = self.trail[i][0]
        else:
            if self.max_depth is not None and self._fork_depth() >= self.max_depth:
                self.cut_prefixes.append([x[0] for x in self.trail])
                self.stats.cut_paths += 1
                raise CutDepth()
            self.trail.append([0, [1], 2])
            k = 0
        if k == 0:
            self.dom[name] = inter
            self._record(e)
            return True
        self.dom[name] = D - idx
        self._record(z3.Not(e))
        return False

    def _crosscheck(self, e, can_true, can_false):
        self.prop_crosschecked += 1
        # bring the solver up to date with the path condition first
        r1 = self._check_pc(e)
        r2 = self._check_pc(z3.Not(e))
        if (r1 == "sat") != can_true or (r2 == "sat") != can_false:
            raise Inconclusive(f"domain propagation disagrees with z3 on {e}: z3 {r1}/{r2}, propagation {can_true}/{can_false}")

    def _check_fresh(self, *extra):
        """path condition + extra in a fresh non-incremental solver"""
        t0 = time.time()
        s = z3.Solver()
        s.set("timeout", self.timeout_ms)
        s.set("rlimit", self.timeout_ms * 20000)  # deterministic resource bound as a second guard
        s.add(*self.pc)
        s.add(*extra)
        r = str(s.check())
        self.stats.queries += 1
        self.stats.solver_s += time.time() - t0
        self._last_fresh = s if r == "sat" else None
        return r

    def _check_pc(self, extra):
        """check path condition + extra in a scratch solver (used for cross-checks only)"""
        t0 = time.time()
        s = z3.Solver()
        s.set("timeout", self.timeout_ms)
        s.add(*self.pc)
        s.add(extra)
        r = str(s.check())
        self.stats.queries += 1
        self.stats.solver_s += time.time() - t0
        return r

    def _branch(self, e):
        i = self.pos
        if i < len(self.trail):
            k = self.trail[i][0]
            self._record(e if k == 0 else z3.Not(e))
            return k == 0
        if self.max_depth is not None and self._fork_depth() >= self.max_depth:
            self.cut_prefixes.append([x[0] for x in self.trail])
            self.stats.cut_paths += 1
            raise CutDepth()
        r1 = self._q(e)
        if r1 == "unknown":
            self.stats.unknown += 1
            raise Inconclusive(f"feasibility unknown for {e}")
        if r1 == "unsat":
            # pc is satisfiable, so the negation is the only outcome; no fork recorded
            self.trail.append([1, [], 1])
            self._record(z3.Not(e))
            return False
        r2 = self._q(z3.Not(e))
        if r2 == "unknown":
            self.stats.unknown += 1
            raise Inconclusive(f"feasibility unknown for Not({e})")
        if r2 == "unsat":
            self.trail.append([0, [], 1])
            self._record(e)
            return True
        self.trail.append([0, [1], 2])
        self._record(e)
        return True

    def _q(self, cond):
        """feasibility query: fresh non-incremental solver when nonlinear definitions are around"""
        if self.lazy or self.rational:
            return self._check_fresh(cond)
        return self._check(cond)

    def define(self, cond, why):
        """add a side condition (definition / recorded assumption) to the path condition"""
        if why:
            self.assumptions[why] = self.assumptions.get(why, 0) + 1
        i = self.pos
        if i < len(self.trail):
            self._record(cond)
            return
        self.trail.append([0, [], 1])
        self._record(cond)

    def define_lazy(self, cond, why):
        """definitional side condition of a fresh variable (quotient, square root).  It is kept
        out of the solver until an obligation cannot be discharged without it: an obligation
        that holds for an arbitrary value of the fresh variable holds for the defined one, and a
        counterexample is only believed when it satisfies every definition."""
        if why:
            self.assumptions[why] = self.assumptions.get(why, 0) + 1
        self.lazy.append(cond)

    def assume(self, cond, why):
        """restrict the path to cond; ends the path if infeasible"""
        if isinstance(cond, SymB):
            cond = cond.e
        if isinstance(cond, bool):
            if not cond:
                raise PathEnd()
            return
        self.assumptions[why] = self.assumptions.get(why, 0) + 1
        i = self.pos
        if i < len(self.trail):
            self._record(cond)
            return
        if self.lazy or self.rational:
            r = self._check_fresh(cond)  # nonlinear context: non-incremental solver (full NRA pipeline)
        else:
            r = self._check(cond)
            if r == "unknown":
                r = self._check_fresh(cond)
        if r == "unknown":
            self.stats.unknown += 1
            raise Inconclusive(f"assume unknown: {why}")
        if r == "unsat":
            raise PathEnd()
        self.trail.append([0, [], 1])
        self._record(cond)

    def pick(self, n, label=None):
        """concrete decision variable in range(n) (all values explored)"""
        return self.choose([None] * n)

    def reach(self, label):
        self.stats.reach[label] = self.stats.reach.get(label, 0) + 1

    # -- obligations --------------------------------------------------------------------
    def prove(self, cond, label, info=None):
        """obligation: cond holds for every value on this path.  Returns True if discharged.
        A sat answer is recorded in self.violations with its model."""
        self.stats.obligations += 1
        self.reach(label)
        if isinstance(cond, SymB):
            cond = cond.e
        if isinstance(cond, (bool,)):
            if cond:
                self.stats.discharged += 1
                self.stats.trivial += 1
                return True
            self.stats.violated += 1
            self.violations.append({"label": label, "model": self.model_of(), "info": info})
            return False
        s = z3.simplify(cond)
        if z3.is_true(s):
            self.stats.discharged += 1
            self.stats.trivial += 1
            return True
        if self.lazy or self.rational:
            # nonlinear definitions are pending: the incremental core is weak on NRA (and does
            # not always honour its timeout there); decide in fresh solvers only
            r = self._check_fresh(z3.Not(cond))
        else:
            r = self._check(z3.Not(cond))
        if r == "unsat":
            self.stats.discharged += 1
            self._record_cross(cond, False)
            return True
        if self.lazy or r == "unknown":
            # refine: add the definitions of the quotient / square-root variables and decide in
            # a fresh (non-incremental) solver, where z3 applies its full NRA pipeline (nlsat)
            self.lazy_used += 1
            r = self._check_fresh(z3.Not(cond), *self.lazy)
            if r == "unsat":
                self.stats.discharged += 1
                self._record_cross(cond, True)
                return True
        if r == "unknown":
            self.stats.unknown += 1
            raise Inconclusive(f"obligation '{label}' undecided (solver: unknown)")
        m = self.model_of(z3.Not(cond), *self.lazy)
        self.stats.violated += 1
        self.violations.append({"label": label, "model": m, "info": info})
        return False

    def _record_cross(self, cond, with_lazy):
        """keep the SMT-LIB2 text of every k-th solver-discharged obligation for the second solver"""
        if not self.cross_rate:
            return
        _CROSS_N[0] += 1  # per process, across cases
        if _CROSS_N[0] % self.cross_rate:
            return
        s = z3.Solver()
        s.add(*self.pc)
        if with_lazy:
            s.add(*self.lazy)
        s.add(z3.Not(cond))
        self.cross_smt2.append(s.to_smt2())

    def model_of(self, *extra):
        fresh = None
        if self.lazy and extra:
            fresh = z3.Solver()
            fresh.set("timeout", self.timeout_ms)
            fresh.add(*self.pc)
            fresh.add(*extra)
            r = fresh.check()
        else:
            self.solver.push()
            if extra:
                self.solver.add(*extra)
            r = self.solver.check()
        out = {}
        if str(r) == "sat":
            m = (fresh or self.solver).model()
            for d in m.decls():
                if d.arity() == 0:
                    v = m[d]
                    if z3.is_int_value(v):
                        out[d.name()] = v.as_long()
                    elif z3.is_rational_value(v):
                        out[d.name()] = str(Fraction(v.numerator_as_long(), v.denominator_as_long()))
                    elif z3.is_algebraic_value(v):
                        out[d.name()] = v.approx(12).as_decimal(12).rstrip("?")
                    else:
                        out[d.name()] = str(v)
        if fresh is None:
            self.solver.pop()
        return out


def explore(harness, *args, timeout_ms=20000, max_depth=None, prefix=None, max_paths=None):
    """run ``harness(ctx, *args)`` once per feasible path. Returns the Context (stats,
    violations, cut prefixes).  Exceptions from the harness other than PathEnd propagate."""
    global _CTX
    c = Context(timeout_ms=timeout_ms, max_depth=max_depth, prefix=prefix)
    old = _CTX
    _CTX = c
    try:
        while True:
            c.start_path()
            try:
                harness(c, *args)
                c.stats.paths += 1
                if c.propagated:
                    # every path that used domain propagation is confirmed feasible by z3
                    if c._check() != "sat":
                        raise Inconclusive("path built by domain propagation is not sat in z3")
            except CutDepth:
                pass
            except PathEnd:
                pass
            if max_paths is not None and c.stats.paths >= max_paths:
                # hand the unexplored sub-trees back as trail prefixes
                c.leftover = []
                for j in range(c.prefix_len, len(c.trail)):
                    for alt in c.trail[j][1]:
                        c.leftover.append([e[0] for e in c.trail[:j]] + [alt])
                break
            if not c.backtrack():
                break
    finally:
        _CTX = old
    return c


# --------------------------------------------------------------------------------------------
# helpers for array obligations
# --------------------------------------------------------------------------------------------
def to_z3(v):
    if isinstance(v, SymQ):
        raise TypeError("a fraction has no single z3 term: compare with Sym operators / prove_equal")
    if isinstance(v, Sym):
        return v.e
    if isinstance(v, SymB):
        return z3.If(v.e, z3.IntVal(1), z3.IntVal(0))
    return _z(v)


def neq_terms(A, B):
    """list of z3 disequalities between two equally shaped nested sequences/arrays; entries
    that are both NaN are equal, NaN vs non-NaN is an immediate difference (True)."""
    import numpy as np

    A = np.asarray(A, dtype=object)
    B = np.asarray(B, dtype=object)
    if A.shape != B.shape:
        return [z3.BoolVal(True)]
    out = []
    for a, b in zip(A.ravel().tolist(), B.ravel().tolist()):
        na, nb = _isnan(a), _isnan(b)
        if na or nb:
            if na != nb:
                out.append(z3.BoolVal(True))
            continue
        if isinstance(a, SymQ) or isinstance(b, SymQ):
            an, ad = SymQ._parts(a)
            bn, bd = SymQ._parts(b)
            an = z3.ToReal(an) if z3.is_int(an) else an
            bn = z3.ToReal(bn) if z3.is_int(bn) else bn
            if ad is not None and bd is not None and ad.get_id() == bd.get_id():
                if an.get_id() != bn.get_id():
                    out.append(an != bn)
                continue
            lhs = an if bd is None else an * bd
            rhs = bn if ad is None else bn * ad
            out.append(lhs != rhs)
            continue
        x, y = _coerce(to_z3(a), to_z3(b))
        if x.get_id() == y.get_id():
            continue
        out.append(x != y)
    return out


def prove_equal(c, A, B, label, info=None):
    d = neq_terms(A, B)
    if not d:
        return c.prove(True, label, info)
    return c.prove(z3.Not(z3.Or(d)), label, info)


def second_solver(texts, exe="/usr/bin/z3", timeout_s=20):
    """re-decide obligations (SMT-LIB2 texts, expected unsat) with an independent solver binary.
    Returns dict(checked, agree, unknown, disagree, errors)."""
    import subprocess
    import tempfile

    out = {"checked": 0, "agree": 0, "unknown": 0, "disagree": 0, "errors": 0, "solver": exe}
    for t in texts:
        with tempfile.NamedTemporaryFile("w", suffix=".smt2", delete=False, dir="/root/scratch" if os.path.isdir("/root/scratch") else None) as f:
            f.write(t)
            path = f.name
        try:
            r = subprocess.run([exe, f"-T:{timeout_s}", path], capture_output=True, text=True, timeout=timeout_s + 10)
            ans = r.stdout.strip().splitlines()[0] if r.stdout.strip() else ""
            out["checked"] += 1
            if "(error" in r.stdout:
                out["errors"] += 1
            elif ans == "unsat":
                out["agree"] += 1
            elif ans == "sat":
                out["disagree"] += 1
            else:
                out["unknown"] += 1
        except Exception:  # noqa
            out["errors"] += 1
        finally:
            os.unlink(path)
    return out
