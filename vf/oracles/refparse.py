"""RefParse -- reference parser for the documented formula grammar, written from the property
statement (not from formulae/parser.py):

    precedence, lowest first:  ~   |   == != < <= > >=   + -   * /   :   **   unary + -   call/atom
    every binary operator is left-associative; ``~`` may occur once per (sub)expression level.
    atom := IDENT | IDENT '[' (IDENT | STRING) ']' | NUMBER | STRING | BQNAME | PYLIT
          | '(' expression ')' | '{' expression '}'            ({e} is I(e))
    call := atom ( '(' [ arg (',' arg)* ] ')' )*
    expression := formula [ '=' comparison-level ]              (keyword argument; target a name)
    formula    := pipe-level [ '~' pipe-level ]

Works on any sequence of token objects with a ``.kind`` that supports ``==`` / ``in`` against
strings -- concrete ``Token``s or symbolic ``LazyTok``s alike (then every comparison is a solver
fork shared with the implementation under test).  Leaves of the result refer to token
*positions*, so no token value is ever needed.

Tree forms (parentheses erased):
    ('bin', op_pos, L, R)  ('un', op_pos, X)  ('call', C, (args...))  ('var', pos, lvl_pos|None)
    ('lit', pos)  ('bq', pos)  ('assign', T, V)  ('I',)
"""


class RefReject(Exception):
    pass


CMP = ["EQUAL_EQUAL", "BANG_EQUAL", "LESS_EQUAL", "LESS", "GREATER_EQUAL", "GREATER"]
LEVELS = [  # binary levels below '~', lowest first
    ["PIPE"],
    CMP,
    ["PLUS", "MINUS"],
    ["STAR", "SLASH"],
    ["COLON"],
    ["STAR_STAR"],
]


class RefParser:
    def __init__(self, tokens):
        self.t = tokens  # last one is EOF
        self.i = 0

    def kind_is(self, kinds):
        if self.i >= len(self.t) - 1:
            return False
        k = self.t[self.i].kind
        for name in kinds:
            if k == name:
                return True
        return False

    def take(self, kinds):
        if self.kind_is(kinds):
            self.i += 1
            return True
        return False

    def parse(self):
        tree = self.expression()
        if self.i != len(self.t) - 1:
            raise RefReject("left-over tokens")
        return tree

    def expression(self):
        left = self.formula()
        if self.take(["EQUAL"]):
            if left[0] != "var" or left[2] is not None:
                raise RefReject("assignment target is not a name")
            value = self.level(1)
            return ("assign", left, value)
        return left

    def formula(self):
        left = self.level(0)
        if self.take(["TILDE"]):
            op = self.i - 1
            right = self.level(0)
            return ("bin", op, left, right)
        return left

    def level(self, n):
        if n == len(LEVELS):
            return self.unary()
        left = self.level(n + 1)
        while self.take(LEVELS[n]):
            op = self.i - 1
            right = self.level(n + 1)
            left = ("bin", op, left, right)
        return left

    def unary(self):
        if self.take(["PLUS", "MINUS"]):
            op = self.i - 1
            return ("un", op, self.unary())
        return self.postfix()

    def postfix(self):
        node = self.atom()
        while self.take(["LEFT_PAREN"]):
            args = []
            if not self.kind_is(["RIGHT_PAREN"]):
                args.append(self.expression())
                while self.take(["COMMA"]):
                    args.append(self.expression())
            if not self.take(["RIGHT_PAREN"]):
                raise RefReject("expected )")
            node = ("call", node, tuple(args))
        return node

    def atom(self):
        if self.take(["IDENTIFIER"]):
            pos = self.i - 1
            if self.take(["LEFT_BRACKET"]):
                if not self.take(["IDENTIFIER", "STRING"]):
                    raise RefReject("level must be an identifier or a string")
                lvl = self.i - 1
                if not self.take(["RIGHT_BRACKET"]):
                    raise RefReject("expected ]")
                return ("var", pos, lvl)
            return ("var", pos, None)
        if self.take(["NUMBER", "STRING", "PYTHON_LITERAL"]):
            return ("lit", self.i - 1)
        if self.take(["BQNAME"]):
            return ("bq", self.i - 1)
        if self.take(["LEFT_PAREN"]):
            e = self.expression()
            if not self.take(["RIGHT_PAREN"]):
                raise RefReject("expected )")
            return e
        if self.take(["LEFT_BRACE"]):
            e = self.expression()
            if not self.take(["RIGHT_BRACE"]):
                raise RefReject("expected }")
            return ("call", ("I",), (e,))
        raise RefReject("unexpected token")


def ref_parse(tokens):
    return RefParser(tokens).parse()


# ---------------------------------------------------------------------------------------------
# canonical form of the implementation's AST (Grouping erased, leaves = token positions)
# ---------------------------------------------------------------------------------------------
def canon(node, pos_of):
    """node: formulae.expr object; pos_of(token_or_value) -> position index (or None)"""
    name = type(node).__name__
    if name == "Grouping":
        return canon(node.expression, pos_of)
    if name == "Binary":
        return ("bin", pos_of(node.operator), canon(node.left, pos_of), canon(node.right, pos_of))
    if name == "Unary":
        return ("un", pos_of(node.operator), canon(node.right, pos_of))
    if name == "Call":
        return ("call", canon(node.callee, pos_of), tuple(canon(a, pos_of) for a in node.args))
    if name == "Variable":
        p = pos_of(node.name)
        if p is None and getattr(node.name, "lexeme", None) == "I":
            return ("I",)
        lvl = node.level
        if lvl is None:
            return ("var", p, None)
        if type(lvl).__name__ == "Literal":
            return ("var", p, pos_of(lvl.value))
        return ("var", p, ("weird", canon(lvl, pos_of)))
    if name == "QuotedName":
        return ("bq", pos_of(node.expression))
    if name == "Literal":
        return ("lit", pos_of(node.value))
    if name == "Assign":
        return ("assign", canon(node.name, pos_of), canon(node.value, pos_of))
    return ("unknown", name)


def subexpr_spans(tree, spans=None):
    """token spans (first, last position) of every operand-position sub-expression"""
    raise NotImplementedError
