"""Common driver: parallel case runner, known-findings matching, evidence writer, exit codes."""
import hashlib
import json
import multiprocessing as mp
import os
import re
import sys
import time
import traceback

VERIF = os.path.dirname(os.path.dirname(os.path.abspath(__file__)))
REPO = os.environ.get("VERIF_REPO", "/repo")
OUT = os.environ.get("VERIF_OUT", VERIF)  # where evidence/ and replays/ are written (scratch dir for mutant runs)

EXIT_OK, EXIT_VIOLATION, EXIT_INCONCLUSIVE = 0, 1, 3


def setup_paths():
    if REPO not in sys.path:
        sys.path.insert(0, REPO)
    if VERIF not in sys.path:
        sys.path.insert(0, VERIF)


def silence_logging():
    import logging
    import warnings

    logging.getLogger("formulae").handlers[:] = [logging.NullHandler()]
    logging.getLogger("formulae").setLevel(logging.CRITICAL)
    logging.getLogger("formulae").propagate = False
    warnings.filterwarnings("ignore")


def repo_site(exc):
    """innermost /repo frame of an exception: 'file.py:function'"""
    tb = traceback.extract_tb(exc.__traceback__)
    site = None
    for fr in tb:
        fn = fr.filename.replace("\\", "/")
        if "/formulae/" in fn and "/verif/" not in fn and "site-packages" not in fn:
            site = f"{os.path.basename(fn)}:{fr.name}"
    return site


# ---------------------------------------------------------------------------------------------
# known findings
# ---------------------------------------------------------------------------------------------
def load_findings(prop):
    p = os.path.join(VERIF, "known_findings.json")
    if not os.path.exists(p):
        return []
    with open(p) as f:
        allf = json.load(f)
    return [e for e in allf if e.get("property") == prop and e.get("kind") == "finding"]


def _match_one(pattern, value):
    if isinstance(pattern, list):
        return value in pattern
    if isinstance(pattern, dict) and "file" in pattern:
        # explicit list kept in a separate committed file (one entry per line)
        return value in _load_list(pattern["file"])
    if isinstance(pattern, str) and pattern.startswith("re:"):
        return isinstance(value, str) and re.fullmatch(pattern[3:], value) is not None
    return pattern == value


_LISTS = {}


def _load_list(rel):
    if rel not in _LISTS:
        with open(os.path.join(VERIF, rel)) as f:
            _LISTS[rel] = set(line.rstrip("\n") for line in f if line.strip())
    return _LISTS[rel]


def match_finding(findings, signature):
    """first finding whose match dict agrees with the violation signature on every key"""
    for e in findings:
        m = e.get("match", {})
        if all(k in signature and _match_one(v, signature[k]) for k, v in m.items()):
            return e
    return None


# ---------------------------------------------------------------------------------------------
# parallel map
# ---------------------------------------------------------------------------------------------
def _init_worker():
    setup_paths()
    os.environ.setdefault("PYTHONHASHSEED", "0")


def pmap(fn, items, nproc=None, chunksize=1):
    """map fn over items in worker processes (fork). fn must be a module-level function."""
    nproc = nproc or int(os.environ.get("VERIF_NPROC", "0")) or os.cpu_count() or 4
    items = list(items)
    if nproc <= 1 or len(items) <= 1:
        _init_worker()
        return [fn(x) for x in items]
    ctx = mp.get_context("fork")
    with ctx.Pool(min(nproc, len(items)), initializer=_init_worker) as pool:
        return pool.map(fn, items, chunksize=chunksize)


def run_tree(fn, jobs, nproc=None):
    """dynamic work queue: fn(job) returns a dict; result['more'] (list of jobs) is fed back
    into the queue (used to split big exploration trees on the fly)."""
    nproc = nproc or int(os.environ.get("VERIF_NPROC", "0")) or os.cpu_count() or 4
    jobs = list(jobs)
    results = []
    if nproc <= 1:
        _init_worker()
        while jobs:
            r = fn(jobs.pop(0))
            jobs.extend(r.pop("more", []) or [])
            results.append(r)
        return results
    ctx = mp.get_context("fork")
    with ctx.Pool(nproc, initializer=_init_worker) as pool:
        pending = [pool.apply_async(fn, (j,)) for j in jobs]
        while pending:
            still = []
            progressed = False
            for a in pending:
                if a.ready():
                    r = a.get()
                    for j in r.pop("more", []) or []:
                        still.append(pool.apply_async(fn, (j,)))
                    results.append(r)
                    progressed = True
                else:
                    still.append(a)
            pending = still
            if not progressed:
                time.sleep(0.02)
    return results


# ---------------------------------------------------------------------------------------------
# result aggregation
# ---------------------------------------------------------------------------------------------
class Report:
    def __init__(self, prop, tier, seed):
        self.prop, self.tier, self.seed = prop, tier, seed
        self.t0 = time.time()
        self.stats = {}  # summed numeric counters
        self.reach = {}
        self.violations = []  # dicts: signature, label, replay(dict), reproduced
        self.inconclusive = []  # strings
        self.samples = []
        self.extra = {}
        self.assumptions = []
        self.functions = []
        self.bounds = {}
        self.outside = []
        self.stubs = []
        self.level = "model_checking"
        self.explanation = None
        self.cases = 0
        self.nontrivial = 0
        self.exhaustive = True
        self.rule = ""
        self.replayed = 0

    def add_stats(self, d):
        for k, v in d.items():
            if k == "reach":
                for a, b in v.items():
                    self.reach[a] = self.reach.get(a, 0) + b
            elif isinstance(v, (int, float)):
                self.stats[k] = self.stats.get(k, 0) + v

    def add_sample(self, s, limit=12):
        if len(self.samples) < limit:
            self.samples.append(s)


def finish(rep):
    """classify violations, write evidence + replay files, print lines, return exit code"""
    findings = load_findings(rep.prop)
    known_hits = {}
    new_viol = []
    not_reproduced = []
    for v in rep.violations:
        if not v.get("reproduced", False):
            not_reproduced.append(v)
            continue
        e = match_finding(findings, v["signature"])
        if e is not None:
            known_hits.setdefault(e["id"], [e, 0])
            known_hits[e["id"]][1] += 1
        else:
            new_viol.append(v)
    lines = []
    for fid, (e, n) in sorted(known_hits.items()):
        lines.append(f"KNOWN-FINDING: property={rep.prop} {e['id']}: {e['what']} [{n} case(s) this run]")
    replay_paths = []
    rdir = os.path.join(OUT, "replays", rep.prop)
    os.makedirs(rdir, exist_ok=True)
    for old in os.listdir(rdir):  # replay files always describe the current run only
        if old.endswith(".json"):
            os.remove(os.path.join(rdir, old))
    seen = set()
    for v in new_viol:
        blob = json.dumps(v["signature"], sort_keys=True, default=str)
        h = hashlib.sha1(blob.encode()).hexdigest()[:12]
        if h in seen:
            continue
        seen.add(h)
        path = os.path.join(rdir, f"{h}.json")
        with open(path, "w") as f:
            json.dump(v, f, indent=1, default=str)
        replay_paths.append(path)
        if len(replay_paths) <= 25:
            lines.append(f"VIOLATION property={rep.prop} replay={path}")
    if len(replay_paths) > 25:
        lines.append(f"... {len(replay_paths) - 25} further distinct violations (see replays/{rep.prop}/)")
    unknown = int(rep.stats.get("unknown", 0))
    for v in not_reproduced:
        rep.inconclusive.append(
            f"counterexample for '{v.get('label')}' did not reproduce on the plain API: {json.dumps(v.get('signature'), default=str)[:300]}"
        )
    if unknown:
        rep.inconclusive.append(f"{unknown} solver answers were 'unknown'")
    for s in rep.inconclusive[:20]:
        lines.append(f"INCONCLUSIVE property={rep.prop} {s}")

    wall = time.time() - rep.t0
    paths = int(rep.stats.get("paths", 0))
    queries = int(rep.stats.get("solver_queries", 0))
    cov = {
        "states": max(paths, rep.cases),
        "transitions": max(queries, 1),
        "traces_validated_against_impl": rep.replayed,
        "samples": rep.samples or ["(none)"],
        "evaluations": max(rep.cases, 1),
        "distinct_nontrivial": rep.nontrivial,
        "rule": rep.rule,
        "exhaustive": bool(rep.exhaustive),
        "obligations": int(rep.stats.get("obligations", 0)),
        "discharged": int(rep.stats.get("discharged", 0)),
        "violated_obligations": int(rep.stats.get("violated", 0)),
        "discharged_by_term_identity": int(rep.stats.get("discharged_by_term_identity", 0)),
        "discharged_by_solver_query": int(rep.stats.get("discharged", 0)) - int(rep.stats.get("discharged_by_term_identity", 0)),
        "unknown": unknown,
        "solver_s": round(rep.stats.get("solver_s", 0.0), 2),
        "paths": paths,
        "solver_queries": queries,
        "cases": rep.cases,
        "functions_executed_symbolically": rep.functions,
        "bounds": rep.bounds,
        "outside_the_claim": rep.outside,
        "stubs": rep.stubs,
        "reach": rep.reach,
        "known_findings_hit": {k: n for k, (e, n) in known_hits.items()},
        "new_violations": len(replay_paths),
        "inconclusive": rep.inconclusive[:20],
    }
    if rep.explanation:
        cov["explanation"] = rep.explanation
    cov.update(rep.extra)
    ev = {
        "property_id": rep.prop,
        "tier": rep.tier,
        "seed": rep.seed,
        "level": rep.level,
        "coverage": cov,
        "assumptions": rep.assumptions,
        "wall_s": round(wall, 2),
        "violations": len(replay_paths),
    }
    os.makedirs(os.path.join(OUT, "evidence"), exist_ok=True)
    with open(os.path.join(OUT, "evidence", f"{rep.prop}.json"), "w") as f:
        json.dump(ev, f, indent=1, default=str)
    for l in lines:
        print(l)
    print(
        f"[{rep.prop} {rep.tier}] cases={rep.cases} paths={paths} queries={queries} "
        f"obligations={cov['obligations']} discharged={cov['discharged']} "
        f"known={sum(n for _, n in known_hits.values())} new_violations={len(replay_paths)} "
        f"inconclusive={len(rep.inconclusive)} solver_s={cov['solver_s']} wall_s={wall:.1f}"
    )
    if replay_paths:
        return EXIT_VIOLATION
    if rep.inconclusive:
        return EXIT_INCONCLUSIVE
    return EXIT_OK
