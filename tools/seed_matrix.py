#!/usr/bin/env python3
"""Run the registered checks against every seeded change in a scratch worktree (never in /repo)
and record which check detects which change: seeded/<name>/meta.json['detected_by'] and
seeded/MATRIX.json.   usage: tools/seed_matrix.py [name ...] [--also ID,ID]"""
import json, os, subprocess, sys, tempfile, shutil, time

VERIF = "/verif"
names = [a for a in sys.argv[1:] if not a.startswith("--")]
TIER = next((a.split("=", 1)[1] for a in sys.argv[1:] if a.startswith("--tier=")), "quick")
extra = {}
for a in sys.argv[1:]:
    if a.startswith("--also="):
        extra = {"*": a.split("=", 1)[1].split(",")}
allnames = sorted(d for d in os.listdir(f"{VERIF}/seeded") if os.path.isdir(f"{VERIF}/seeded/{d}"))
names = names or allnames
matrix = {}
mp = f"{VERIF}/seeded/MATRIX.json"
if os.path.exists(mp):
    matrix = json.load(open(mp))
for name in names:
    d = f"{VERIF}/seeded/{name}"
    meta = json.load(open(f"{d}/meta.json"))
    prop = meta["property"]
    ids = [prop] + [i for i in meta.get("also_check", []) + extra.get("*", []) if i != prop]
    if "--light-also" in sys.argv:  # skip the four long-running checks unless they are the change's own or caught it before
        ids = [prop] + [i for i in ids[1:] if i not in ("C01", "C02", "C03", "C07") or i in (meta.get("detected_by") or [])]
    wt = tempfile.mkdtemp(prefix="seedrun_", dir="/tmp"); os.rmdir(wt)
    out = tempfile.mkdtemp(prefix="seedout_", dir="/tmp")
    subprocess.run(f"git -C /repo worktree add -q --detach {wt} HEAD", shell=True, check=True)
    try:
        r = subprocess.run(f"git apply {d}/patch.diff", shell=True, cwd=wt, capture_output=True, text=True)
        if r.returncode != 0:
            prev = matrix.get(name) if isinstance(matrix.get(name), dict) and "error" not in matrix.get(name, {}) else None
            if prev:
                prev["stale"] = "patch no longer applies to /repo HEAD (later repairs changed its context); result of the last run at the HEAD it was written for"
                matrix[name] = prev
                meta["stale"] = prev["stale"]
                json.dump(meta, open(f"{d}/meta.json", "w"), indent=1)
            else:
                matrix[name] = {"error": "patch does not apply to HEAD"}
            print(name, "PATCH DOES NOT APPLY"); continue
        res = {}
        for i in ids:
            t0 = time.time()
            env = dict(os.environ, VERIF_REPO=wt, VERIF_OUT=out)
            r = subprocess.run([f"{VERIF}/check", i, "--tier", TIER], capture_output=True, text=True, env=env, cwd=VERIF)
            nv = sum(1 for l in r.stdout.splitlines() if l.startswith("VIOLATION"))
            res.pop("stale", None)
            res[i] = {"exit": r.returncode, "violation_lines": nv, "wall_s": round(time.time() - t0, 1)}
            print(name, i, res[i], flush=True)
        det = [i for i, v in res.items() if v["exit"] == 1 and v["violation_lines"] > 0]
        how = {i: f"exit {v['exit']}, {v['violation_lines']} VIOLATION lines ({TIER} tier, scratch worktree of HEAD + patch)" for i, v in res.items()}
        if TIER == "quick":
            matrix[name] = res
            meta["detected_by"] = det
            meta["checked_with"] = how
        else:
            matrix[name + "@" + TIER] = res
            meta["detected_by_" + TIER] = det
            meta["checked_with_" + TIER] = how
        json.dump(meta, open(f"{d}/meta.json", "w"), indent=1)
    finally:
        subprocess.run(f"git -C /repo worktree remove --force {wt}", shell=True)
        shutil.rmtree(out, ignore_errors=True)
    json.dump(matrix, open(mp, "w"), indent=1)
