#!/bin/sh
# run every registered check (quick or given tier) on the current tree; prints one line per check
cd "$(dirname "$0")/.."
mkdir -p /root/scratch
TIER="${1:-quick}"
for id in $(python3 -c "import json; print(' '.join(c['property_id'] for c in json.load(open('MANIFEST.json'))['checks']))"); do
  ./check $id --tier $TIER > /root/scratch/run_$id.log 2>&1; rc=$?
  echo "$id rc=$rc $(tail -1 /root/scratch/run_$id.log | cut -c1-200)"
done
