#!/usr/bin/env python3
"""rewrite Section 11 of DESIGN.md (between the MATRIX markers) from seeded/*/meta.json + seeded/MATRIX.json"""
import json, os, re
V = "/verif"
m = json.load(open(f"{V}/seeded/MATRIX.json"))
rows = []
own_hit = own_total = any_hit = 0
for name in sorted(d for d in os.listdir(f"{V}/seeded") if os.path.isdir(f"{V}/seeded/{d}")):
    meta = json.load(open(f"{V}/seeded/{name}/meta.json"))
    res = dict(m.get(name, {}))
    stale = res.pop("stale", None)
    if "error" in res:
        det = "(patch no longer applies)"
    else:
        det = ", ".join(f"**{i}**" if (r["exit"] == 1 and r["violation_lines"]) else f"{i}: missed" + (" (exit 3)" if r["exit"] == 3 else "") for i, r in res.items())
        own = res.get(meta["property"])
        own_total += 1
        if own and own["exit"] == 1 and own["violation_lines"]:
            own_hit += 1
        if any(r["exit"] == 1 and r["violation_lines"] for r in res.values()):
            any_hit += 1
    if stale and "error" not in m.get(name, {}):
        det += " (at the HEAD it was written for; the patch no longer applies after later repairs)"
    note = meta.get("note", "") or (("outside every claim: " + meta["outside_every_claim"]) if meta.get("outside_every_claim") else "")
    needs = meta.get("needs_to_manifest", "").replace("|", "&#124;")
    rows.append("| " + name + " | " + needs + " | " + det + ((" — " + note) if note else "") + " |")
text = f"""Seeded changes were written by fresh sub-agents that saw only the text of one property and a
scratch worktree of /repo (nothing from /verif). Each was confirmed in a scratch worktree of the
then-current HEAD (patch applies, 135 tests pass with it, its demonstration passes without and
fails with the patch) and is kept as `seeded/<name>/` (patch.diff, demo.py, notes.md, meta.json).
`tools/seed_matrix.py` applies each patch in a scratch worktree and runs the quick tier of the
property's own check (and of related checks) against it; **bold** = exit 1 with VIOLATION lines.
Of {own_total} seeded changes {own_hit} are caught by the check of the property they were written
against and {any_hit} by at least one check.

| change | what it needs to manifest | quick-tier result |
|---|---|---|
""" + "\n".join(rows) + """

Changes that no check catches are floating-point-only (identical over the reals: C14-B, C08-E) or
need the caller to modify in place a list the library handed out (C02-N, C04-N: not stated by any
property, and the pinned tree hands out its own label list through Term.levels) - outside every
claim of this family. Seven waves were written: (A-H) free choice, (I/J) cooperating sites,
multi-step sequences and unusual inputs, (K/L) size and shape thresholds, (M/N) refusals, metadata,
aliasing and determinism, (O/P) interaction of two or three features, (Q) data-type and value boundaries
(bool / integer / Categorical / string dtypes, one- and two-level factors, unusual indexes,
level names that sort differently as text and as numbers). Checks were strengthened
after misses: C02 (keyword-value aliasing of calls), C04 (declared level orders through C()),
C06 (unordered Categorical flavour; operator spellings sharing components), C09 (duplicate index
labels), C11 (keyword position, None bindings, Python-builtin names), C12 (bool arithmetic,
distinct-call pairs, keyword order), C13 (falsy / negative reference levels, shared encoding
objects), and the second-wave list in the commit "strengthen checks: ...".
"""
s = open(f"{V}/DESIGN.md").read()
s = re.sub(r"<!-- MATRIX:BEGIN -->.*<!-- MATRIX:END -->", "<!-- MATRIX:BEGIN -->\n" + text.replace("\\", "\\\\") + "<!-- MATRIX:END -->", s, flags=re.S)
open(f"{V}/DESIGN.md", "w").write(s)
print(own_hit, own_total, any_hit)
