#!/usr/bin/env python3
"""Run every registered quick check against behaviour-preserving changes (benign/<name>/patch.diff) in a
scratch worktree of /repo HEAD: every check must exit 0 (no false alarm).  Result: benign/MATRIX.json
usage: tools/benign_matrix.py [name ...] [--ids=C01,C02]"""
import json, os, shutil, subprocess, sys, tempfile, time

VERIF = "/verif"
names = [a for a in sys.argv[1:] if not a.startswith("--")]
ids = [c["property_id"] for c in json.load(open(f"{VERIF}/MANIFEST.json"))["checks"]]
for a in sys.argv[1:]:
    if a.startswith("--ids="):
        ids = a.split("=", 1)[1].split(",")
names = names or sorted(d for d in os.listdir(f"{VERIF}/benign") if os.path.isdir(f"{VERIF}/benign/{d}"))
mp = f"{VERIF}/benign/MATRIX.json"
matrix = json.load(open(mp)) if os.path.exists(mp) else {}
for name in names:
    wt = tempfile.mkdtemp(prefix="benwt_", dir="/tmp"); os.rmdir(wt)
    out = tempfile.mkdtemp(prefix="benout_", dir="/tmp")
    subprocess.run(f"git -C /repo worktree add -q --detach {wt} HEAD", shell=True, check=True)
    try:
        r = subprocess.run(f"git apply {VERIF}/benign/{name}/patch.diff", shell=True, cwd=wt, capture_output=True, text=True)
        if r.returncode != 0:
            matrix[name] = {"error": "patch does not apply to HEAD"}; print(name, "PATCH DOES NOT APPLY"); continue
        t = subprocess.run("/venv/bin/python -m pytest -q -p no:cacheprovider tests 2>&1 | tail -1", shell=True, cwd=wt, capture_output=True, text=True).stdout.strip()
        res = matrix.get(name, {}) if isinstance(matrix.get(name), dict) and "error" not in matrix.get(name, {}) else {}
        res["tests"] = t
        for i in ids:
            t0 = time.time()
            env = dict(os.environ, VERIF_REPO=wt, VERIF_OUT=out)
            r = subprocess.run([f"{VERIF}/check", i, "--tier", "quick"], capture_output=True, text=True, env=env, cwd=VERIF)
            lines = [l for l in r.stdout.splitlines() if l.startswith(("VIOLATION", "INCONCLUSIVE"))]
            res[i] = {"exit": r.returncode, "lines": lines[:3], "wall_s": round(time.time() - t0, 1)}
            print(name, i, r.returncode, lines[:1], flush=True)
        matrix[name] = res
    finally:
        subprocess.run(f"git -C /repo worktree remove --force {wt}", shell=True)
        shutil.rmtree(out, ignore_errors=True)
    json.dump(matrix, open(mp, "w"), indent=1)
