#!/usr/bin/env python3
"""validate a seeded change in a scratch worktree of /repo at HEAD and store it under /verif/seeded/<name>/

usage: tools/validate_seeded.py <PROP> <label> <srcdir with patch.diff demo.py notes.md> ["needs" text]
"""
import json, os, shutil, subprocess, sys, tempfile

prop, label, src = sys.argv[1:4]
needs = sys.argv[4] if len(sys.argv) > 4 else ""
name = f"{prop}-{label}"
wt = tempfile.mkdtemp(prefix="seedwt_", dir="/tmp")
os.rmdir(wt)
def sh(cmd, cwd=None):
    r = subprocess.run(cmd, shell=True, cwd=cwd, capture_output=True, text=True)
    return r.returncode, (r.stdout + r.stderr)
rc, out = sh(f"git -C /repo worktree add -q --detach {wt} HEAD")
assert rc == 0, out
res = {"property": prop, "name": name, "repo_head": sh("git -C /repo rev-parse --short HEAD")[1].strip()}
try:
    os.makedirs(f"{wt}/out/X", exist_ok=True)
    shutil.copy(f"{src}/demo.py", f"{wt}/out/X/demo.py")
    rc0, o0 = sh("/venv/bin/python out/X/demo.py", cwd=wt)
    res["demo_pristine_rc"] = rc0
    rca, oa = sh(f"git apply {src}/patch.diff", cwd=wt)
    res["patch_applies"] = rca == 0
    if rca == 0:
        rct, ot = sh("/venv/bin/python -m pytest -q -p no:cacheprovider tests 2>&1 | tail -1", cwd=wt)
        res["tests_with_patch"] = ot.strip()
        rc1, o1 = sh("/venv/bin/python out/X/demo.py", cwd=wt)
        res["demo_patched_rc"] = rc1
        res["demo_patched_tail"] = o1.strip().splitlines()[-1][:300] if o1.strip() else ""
    ok = rca == 0 and rc0 == 0 and res.get("demo_patched_rc", 0) != 0 and "135 passed" in res.get("tests_with_patch", "") and "2 failed" in res.get("tests_with_patch", "")
    res["confirmed"] = ok
finally:
    sh(f"git -C /repo worktree remove --force {wt}")
print(json.dumps(res, indent=1))
if res["confirmed"]:
    d = f"/verif/seeded/{name}"
    os.makedirs(d, exist_ok=True)
    if os.path.abspath(src) != os.path.abspath(d):
        shutil.copy(f"{src}/patch.diff", f"{d}/patch.diff")
        shutil.copy(f"{src}/demo.py", f"{d}/demo.py")
        if os.path.exists(f"{src}/notes.md"):
            shutil.copy(f"{src}/notes.md", f"{d}/notes.md")
    old = json.load(open(f"{d}/meta.json")) if os.path.exists(f"{d}/meta.json") else {}
    meta = {**old, "property": prop, "needs_to_manifest": needs or old.get("needs_to_manifest", ""), "confirmed_at_repo_head": res["repo_head"],
            "ran": ["git worktree add (scratch, HEAD)", "demo.py on pristine -> rc 0", "git apply patch.diff", "pytest tests -> " + res["tests_with_patch"], f"demo.py patched -> rc {res['demo_patched_rc']}", "git worktree remove --force"],
            "detected_by": old.get("detected_by")}
    json.dump(meta, open(f"{d}/meta.json", "w"), indent=1)
