#!/bin/sh
# usage: tools/with_mutant.sh <seeded name> <ID> [tier]   -- runs one check against a scratch worktree of /repo HEAD + the seeded patch
name="$1"; id="$2"; tier="${3:-quick}"
wt=$(mktemp -u /tmp/mutwt_XXXXXX); out=$(mktemp -d /tmp/mutout_XXXXXX)
git -C /repo worktree add -q --detach "$wt" HEAD || exit 3
( cd "$wt" && git apply /verif/seeded/$name/patch.diff ) || { git -C /repo worktree remove --force "$wt"; exit 3; }
VERIF_REPO="$wt" VERIF_OUT="$out" /verif/check "$id" --tier "$tier"; rc=$?
git -C /repo worktree remove --force "$wt"; rm -rf "$out"
echo "rc=$rc"
