#!/bin/sh
# usage: tools/try_mutant.sh <patch.diff> <ID> [tier]   -- applies the patch to /repo, runs the check, reverts
P="$1"; ID="$2"; TIER="${3:-quick}"
cd /repo || exit 9
if [ -n "$(git status --porcelain)" ]; then echo "/repo not clean"; exit 9; fi
git apply "$P" || { echo "patch does not apply"; exit 9; }
cd /verif
cp -f "evidence/$ID.json" "/root/scratch/evidence_$ID.keep" 2>/dev/null
./check "$ID" --tier "$TIER" 2>&1 | grep -E "VIOLATION|KNOWN-FINDING|INCONCLUSIVE|^\[" | head -${LINES_MAX:-8}
echo "exit=$?"
cp -f "/root/scratch/evidence_$ID.keep" "evidence/$ID.json" 2>/dev/null
git -C /repo checkout -- . ; git -C /repo status --porcelain | head -3
