#!/usr/bin/env python3
"""rewrite the 'measured' table of DESIGN.md section 8 from evidence/*.json"""
import json, re, glob, os
V = "/verif"
rows = []
for f in sorted(glob.glob(f"{V}/evidence/C*.json")):
    e = json.load(open(f)); c = e["coverage"]
    rows.append(f"| {e['property_id']} | {e['tier']} | {c.get('cases', '')} | {c.get('paths', '')} | {c.get('solver_queries', '')} | {c.get('obligations', '')} | {c.get('discharged_by_term_identity', '')} / {c.get('discharged_by_solver_query', '')} | {sum(c.get('known_findings_hit', {}).values())} | {c.get('traces_validated_against_impl', '')} | {e['wall_s']} |")
text = ("Numbers of the committed evidence files (last clean run on the unchanged tree, 16 cores):\n\n"
        "| ID | tier | cases | paths | solver queries | obligations | discharged by term identity / by solver query | known-finding hits | plain-float validations / replays | wall s |\n|---|---|---|---|---|---|---|---|---|---|\n" + "\n".join(rows) + "\n")
s = open(f"{V}/DESIGN.md").read()
if "<!-- NUMBERS:BEGIN -->" not in s:
    s = s.replace("Deviations from Section 4, property by property:", "<!-- NUMBERS:BEGIN -->\n<!-- NUMBERS:END -->\n\nDeviations from Section 4, property by property:")
s = re.sub(r"<!-- NUMBERS:BEGIN -->.*<!-- NUMBERS:END -->", lambda m: "<!-- NUMBERS:BEGIN -->\n" + text + "<!-- NUMBERS:END -->", s, flags=re.S)
open(f"{V}/DESIGN.md", "w").write(s)
print(len(rows))
