#!/bin/sh
# usage: tools/port_patches.sh seeded|benign name...   -- re-creates patch.diff against /repo HEAD with a 3-way apply (scratch worktree); prints ported / conflict
kind="$1"; shift
for n in "$@"; do
  wt=$(mktemp -u /tmp/portwt_XXXXXX)
  git -C /repo worktree add -q --detach "$wt" HEAD || exit 3
  if (cd "$wt" && git apply -3 "/verif/$kind/$n/patch.diff" >/dev/null 2>&1) && ! (cd "$wt" && git status --short | grep -q "^UU\|^U \|^ U"); then
    (cd "$wt" && git diff HEAD > "/tmp/ported_$n.diff")
    if [ -s "/tmp/ported_$n.diff" ]; then cp "/tmp/ported_$n.diff" "/verif/$kind/$n/patch.diff"; echo "$n ported"; else echo "$n empty"; fi
    rm -f "/tmp/ported_$n.diff"
  else
    echo "$n conflict"
  fi
  git -C /repo worktree remove --force "$wt"
done
