#!/bin/sh
# Offline build of the overlay venv used by every check:
#   /verif/.venv = venv of /venv's python + .pth making /venv's site-packages and /repo importable
#   + z3-solver and crosshair-tool from the offline wheelhouse.
set -e
cd "$(dirname "$0")"
V=.venv
if [ ! -x "$V/bin/python" ] || ! "$V/bin/python" -c "import z3, numpy, pandas, scipy" 2>/dev/null; then
  rm -rf "$V"
  /venv/bin/python -m venv "$V"
  SP=$("$V/bin/python" -c "import sysconfig; print(sysconfig.get_paths()['purelib'])")
  printf "import site; site.addsitedir('/venv/lib/python3.12/site-packages')\n" > "$SP/_venv_overlay.pth"
  PIP_NO_INDEX=1 "$V/bin/python" -m pip install -q --no-index --find-links /opt/veriftools/wheels z3-solver crosshair-tool >/dev/null 2>&1 || \
  PIP_NO_INDEX=1 "$V/bin/python" -m pip install -q --no-index --find-links /opt/veriftools/wheels z3-solver
fi
"$V/bin/python" -c "import z3, numpy, pandas, scipy; print('verif venv ok: z3', z3.get_version_string())"
