check("C01",
  "bounded symbolic execution of the real Parser/Scanner on solver-variable token kinds / characters (z3), differential against a reference grammar",
  "model_checking",
  "Every feasible path of the real Parser on sentences of <= N tokens whose kinds are z3 variables over all 31 token kinds, and of the real Scanner on strings of <= L symbolic characters, is explored (solver-decided forks); on each accepted path the AST / token list must equal the reference parser's / lexer's and the cursor must be at EOF. Exhaustive within the stated bounds, nothing beyond them.",
  "Trusted: reference grammar (vf/oracles/refparse.py) and reference lexer (ref_lex) written from the documented precedence table; z3; finite-domain propagation for token-kind variables is confirmed by z3 on every completed path and cross-checked on every 512th decision. Longer sentences are outside the claim.",
  "DESIGN.md section 4 C01")
