check("C01",
  "bounded symbolic execution of the real Parser/Scanner on solver-variable token kinds / characters (z3), differential against a reference grammar",
  "model_checking",
  "Every feasible path of the real Parser on sentences of <= N tokens whose kinds are z3 variables over all 31 token kinds, and of the real Scanner on strings of <= L symbolic characters, is explored (solver-decided forks); on each accepted path the AST / token list must equal the reference parser's / lexer's and the cursor must be at EOF. Exhaustive within the stated bounds, nothing beyond them.",
  "Trusted: reference grammar (vf/oracles/refparse.py) and reference lexer (ref_lex) written from the documented precedence table; z3; finite-domain propagation for token-kind variables is confirmed by z3 on every completed path and cross-checked on every 512th decision. Longer sentences are outside the claim. A plain-API part (not a solver verdict) checks twelve pairs of formulas that differ in one token: both accepted with identical matrices means the pipeline ignored that token.",
  "DESIGN.md section 4 C01")

check("C02",
  "bounded symbolic execution of the real Resolver + term-class operator overloads on ASTs whose variable names are z3 variables (aliasing decided by the solver), differential against a reference set algebra",
  "model_checking",
  "For every formula shape of the documented language within the size bound, the real Resolver and the operator overloads of Intercept/NegatedIntercept/Term/GroupSpecificTerm/Response/Model run on ASTs whose variable names are solver variables; each == between names is a z3-decided fork, so one path covers every naming with that aliasing pattern. The resulting response, common-term set and group-term set must equal the reference Wilkinson-Rogers/lme4 expansion; an exception for an in-language formula is a violation. Exhaustive within the stated bounds.",
  "Trusted: the reference algebra (ref_T/ref_chain in vf/props/c02.py) written from the statement; z3. Scanner/Parser are bypassed (C01 covers them). A plain-API part (not a solver verdict) runs 400 formulas with names that parse as numbers / keywords / back-quoted names against the reference expansion.",
  "DESIGN.md section 4 C02")

check("C04",
  "symbolic execution of the real design_matrices pipeline on z3-real numeric cells (complete-factorial frames), entry == LabelMeaning(label) discharged by z3",
  "model_checking",
  "For every generated (formula, categorical flavour, row order) the real pipeline runs once on a complete-factorial frame whose numeric cells are z3 reals; every entry of the common, group-specific and categorical-response matrices must equal, as a polynomial identity decided by z3, the meaning of its column label (indicator products times numeric cells, e|g[l] blocks); label count, uniqueness and sorted/declared level order are checked on the same run. One run covers every frame with those level sets and any numeric values.",
  "Trusted: LabelMeaning oracle (vf/gen.py), z3, the three stubs listed in evidence (is_numeric_dtype for Sym columns, numpy shim in formulae.transforms, logging). Formulas/flavours/orders are enumerated, not symbolic. Reals, not floats. A plain-API part runs six interaction formulas on int8 / uint8 / int16 / int32 / int64 columns against exact integer products.",
  "DESIGN.md section 4 C04")

check("C06",
  "symbolic execution of the real design_matrices + evaluate_new_data on z3-real numeric cells; new rows == training rows as z3 terms",
  "model_checking",
  "For every generated (formula, flavour) the real pipeline builds the design on a complete-factorial training frame whose numeric cells are z3 reals, then evaluates common and group matrices on row multisets of that frame (singles, repetition, reversed, subsets lacking a level). The new matrix must equal the selected training rows as z3 terms: a re-estimated mean/std/first value/level set yields a different term and a two-row model, which is replayed on floats. Branches on symbolic values (e.g. truthiness of a fitted mean) are explored exhaustively.",
  "Trusted: z3; stubs listed in evidence. bs()/orthogonal poly run on concrete floats (FITPACK / float buffer) and only their exact row identity and params_set are checked there. Definitional constraints of quotients / square roots are added lazily (only when an obligation needs them).",
  "DESIGN.md section 4 C06")

check("C08",
  "relational symbolic execution: two real runs of design_matrices (data vs transformed data) on z3-real cells compared entrywise by z3",
  "model_checking",
  "For every generated (formula, flavour, transformation) the real pipeline runs on a frame with z3-real numeric cells and on its transformed copy (row permutation with/without reset_index, index relabelling incl. duplicate/str/float labels, reversed column order, added unused columns with NaN, NaN-drop under a duplicate index); response, common and group matrices must be equal as z3 terms up to the row permutation, and labels, slices, levels and fitted transform parameters identical.",
  "Trusted: z3 (incl. its polynomial rewriter used to give equal sums one quotient/root variable); stubs listed in evidence; std != 0. Transformations, formulas and flavours are enumerated. Four bs() formulas run on concrete float frames (compiled percentile/splev) with exact float comparison.",
  "DESIGN.md section 4 C08")

check("C09",
  "relational symbolic execution: design_matrices on a frame with missing cells vs on the frame with exactly the affected rows removed, z3-real cells, equality decided by z3",
  "model_checking",
  "For every generated (formula, missingness pattern over used and unused columns, na_action, index flavour) the real pipeline runs on the frame with NaN/None cells and on the frame from which exactly the rows missing a USED variable were removed ('used' computed from the formula text by the harness). drop: all three matrices equal the reference run as z3 terms and stay row-aligned; error: ValueError iff such a row exists; pass: all rows kept, complete rows as under drop, NaN in exactly the columns whose label mentions the missing numeric variable; other na_action values are refused.",
  "Trusted: z3; used_from_text(); stubs in evidence. Patterns of at most 2 (quick) / 3 (thorough) missing cells on a 6-row frame; 'pass' only for numeric cells and pointwise terms, as the statement restricts it.",
  "DESIGN.md section 4 C09")

check("C10",
  "relational symbolic execution of evaluate_new_data (rows with an unseen level vs the same rows without it) on z3-real cells; mode and mode-change sequences enumerated; Config on candidate strings",
  "model_checking",
  "For every generated (formula, placement of an unseen level in predictor / interaction factor / effect / grouping variables, mode, sequence of mode changes) the real evaluate_new_data runs on new rows with and without the unseen value; numeric cells are z3 reals. error mode must raise; otherwise columns of the variable are zero on exactly those rows, every other entry equals the reference run (z3), warning warns; group matrices get exactly one trailing block per term of a factor with unseen groups carrying the effect values of those rows, slices are contiguous and shifted, factors_with_new_levels is exact. Config is exercised on documented and near-miss key/value strings through both __setitem__ and setattr.",
  "Trusted: z3; stubs in evidence; the reference for 'what they would be without them' is the evaluation with the training value in place of the unseen one. One unseen level per variable; 4-row new frames. Config candidates are a finite list (not arbitrary strings): CrossHair 0.0.110 could not exhaust symbolic str keys within 40 s per condition and is not used.",
  "DESIGN.md section 4 C10")

check("C17",
  "symbolic execution of the real pipeline and of chains of evaluate_new_data on z3-real cells; container invariants checked on every reachable matrix object, view equalities decided on z3 terms",
  "model_checking",
  "For every generated (formula, flavour, chain of evaluate_new_data calls with/without unseen groups) every reachable ResponseMatrix, CommonEffectsMatrix, GroupEffectsMatrix and DesignMatrices is inspected: slices contiguous from zero in term order and covering the columns; m[name] equals the slice and unknown names raise ValueError; data-frame view, numpy view, tuple unpacking and design_matrix hold the same z3 terms; labels unique and as many as columns; equal row counts; str()/repr() succeed and contain the actual shape; the original design is re-inspected after the chain.",
  "Trusted: z3; stubs in evidence. Chains up to length 2 (quick) / 3 (thorough); new frames of 4 rows.",
  "DESIGN.md section 4 C17")

check("C15",
  "symbolic execution of the real design_matrices on z3-real responses/predictors and z3-integer counts; pointwise meaning of the response columns and independence of the predictors decided by z3",
  "model_checking",
  "For every generated (response form, right-hand side, flavour): numeric response equals the column as z3 terms; categorical response is one indicator column per level in sorted/declared order; y[level] (identifier or quoted) is a single column that is 1 exactly where y equals the level; prop(s, n) with z3-integer successes/trials gives (s, n), its refusal happens only on paths where some s > t (solver-checked); multi-term responses are refused; common and group matrices equal, as z3 terms, those of the same right-hand side without a response; no '~' gives response None.",
  "Trusted: z3; stubs in evidence. Response forms, right-hand sides and flavours are enumerated.",
  "DESIGN.md section 4 C15")

check("C16",
  "symbolic execution of the helper functions on z3-real / z3-integer columns through the real pipeline (per-row equality forks decided by z3), alias pairs as relational runs",
  "model_checking",
  "binary(x, s) on a symbolic numeric column is explored over every feasible pattern of x_i == s and compared with If(x_i == s, 1, 0) (smallest value if s omitted; refusal only on paths where no row equals s); binary on categoricals, offset (column, constants, calls) at training and recomputed from fresh symbols at prediction, prop trials of the new frame at prediction, I(e) == e == {e}; every alias pair (B/binary, p/prop/proportion, standardize/scale, T/C+Treatment, S/C+Sum) gives equal z3 terms and labels equal modulo the callee name, at training and at prediction.",
  "Trusted: z3; stubs in evidence. Integrality validation of prop is exercised on concrete tables only (np.mod on a real term is uninterpreted).",
  "DESIGN.md section 4 C16")

check("C14",
  "symbolic execution of the real Center/Scale/Polynomial on z3-real data vectors; contracts as NRA obligations (division-free quotients, square-root variables) decided by z3; bs parameter validation/column counts over enumerated parameters",
  "model_checking",
  "center: sum of outputs == 0; scale/standardize: sum == 0 and sum of squares == n under std != 0; both the same affine map (training mean/std) on fresh symbolic later data; poly(raw): exactly the powers x^1..x^d (d <= 6), at training and prediction; poly orthonormal: columns orthogonal to the constant, unit norm and satisfying the three-term recurrence with the fitted parameters (hence same span as the raw powers) for degree 1 (n <= 10) and degree 2 (n = 3); bs: every df/degree/intercept/knots combination in the bound is either refused (invalid) or yields the documented number of columns, invalid bounds/knots refused.",
  "Trusted: z3 (nlsat); stubs in evidence; std != 0, x not constant. NOT decided and not claimed: non-negativity / partition of unity of bs values (FITPACK), poly orthonormality for higher degree/n (solver unknown), anything about IEEE rounding (reals, not floats). A plain-API part compares poly(k, d, raw=True) on integer dtypes with Python's unbounded integer powers.",
  "DESIGN.md section 4 C14")

check("C03",
  "QF_LRA decision of full column rank and span equality (quantifier: all coefficient vectors) on exact integer design matrices produced by the real design_matrices; formulas and layouts enumerated",
  "other",
  "For every formula of the bound (all 5910 ordered families of <= 3 terms over {f,g,h,x} with/without intercept, plus factor-order, second-numeric, C/T/S and multi-column-atom variants) the real design_matrices builds X on replicated complete-factorial integer data; z3 (QF_LRA) shows that no non-zero coefficient vector annihilates X and that span(X) equals the span of the complete-indicator coding of every term (both inclusions, witnesses re-checked in exact arithmetic). A failure to build the matrix is a violation. Deficiencies are re-tested at a second data point and replayed with exact fraction elimination.",
  "Only the coefficient vectors are symbolic (this is the weakest fit to the family and is labelled 'other'); formulas/levels/data are enumerated. General position is represented by integer pseudo-random data (full rank at a point implies generic full rank). bs/poly/scale atoms are represented by an integer two-column stand-in.",
  "DESIGN.md section 4 C03")

check("C13",
  "QF_LRA rank/span decisions (all coefficient vectors) on the real Treatment/Sum matrices and on design matrices of recoded formulas; coding options through the real pipeline on z3-real cells",
  "model_checking",
  "(1) For every level count in the bound and every reference/omit index the real Treatment/Sum matrices have the documented shape, [1|reduced] has full column rank and the full matrix rank n (z3, QF_LRA), columns are level indicators / zero-sum contrasts with the omitted level -1, labels name the column levels. (2) C/T/S with every permutation of the levels as levels=, every ref/omit (levels include 0 and a negative value) run through the real pipeline with z3-real numeric cells: label order and column meaning equal the declared order with the first level / ref / omit left out. (3) For 10 formula templates, replacing the coding of f and g among 7 spellings each leaves span(X) unchanged and X full rank (z3, QF_LRA, two real runs).",
  "Trusted: z3; exact integer matrices; stubs in evidence for part (2). Level counts / permutations / templates are enumerated; coefficient vectors and numeric cells are the symbolic part.",
  "DESIGN.md section 4 C13")

check("C05",
  "symbolic execution of the real pipeline on z3-real cells for the block structure (zero outside the own group, sorted groups, effect columns == a common-effects coding) and QF_LRA rank/span decisions per grouping factor on exact integer data",
  "model_checking",
  "S part: for every generated (formula, flavour, row order) each group-specific term equals, as z3 terms, a matrix that is zero outside the slots of the row's own group, the groups are listed in sorted (declared for ordered data) order with g1:g2 cells lexicographic, and the effect columns equal the full or reduced common-effects coding of the effect term. L part: for every (effect expression, grouping expression, with/without 0 +) z3 (QF_LRA) decides that the columns of all terms sharing a grouping factor are linearly independent and span ModelSpace(effect) (x) indicators(group cells).",
  "Trusted: z3; exact integer data in general position (L); stubs in evidence (S); Effect/grouping expressions and flavours are enumerated.",
  "DESIGN.md section 4 C05")

check("C11",
  "exhaustive exploration (solver-forked decision bits) of which scopes define a name, through the real design_matrices with z3-valued bindings; 'first match wins' decided by z3",
  "model_checking",
  "For every role (positional argument, keyword argument, callee), name flavour (plain, dotted m.fn / m.sub.fn, back-quoted) and env depth 0..3 (generated nested callers with their own globals and decoy bindings), all subsets of {data frame, built-ins, caller locals, caller globals, extra_namespace} defining the name are explored; each scope binds a different z3 value (or None), and the design-matrix column must equal, as z3 terms, x + the value of the first defining scope in the documented order (callee skips the data frame); a name defined nowhere must raise. VarLookupDict is explored separately over dict layouts incl. None values.",
  "Trusted: z3; stubs in evidence. The built-in scope is represented by the built-in name 'I'. Scope subsets are enumerated decision bits; the values are symbolic.",
  "DESIGN.md section 4 C11")

check("C12",
  "symbolic execution of call terms through the real pipeline on z3-real columns, differential against Python's own eval of the same text on the same symbolic columns (z3 decides equality); names compared with the normalised source text",
  "model_checking",
  "For every argument expression of the bound (all operator trees of depth <= 2 over columns and number literals with unary signs and the 11 binary operators, a slice of depth 3 incl. arithmetic over comparison results) and 21 call forms (positional/keyword/nested calls to recording functions, string/True/False/None literals, whitespace variants): the column produced by the real pipeline equals, as z3 terms (comparisons fork per row), Python's eval of the same text; recording functions receive the arguments Python would pass; the term name is the normalised source text with exactly the parentheses the grammar needs; whitespace variants are one term; {e} is I(e); texts with different trees have different names; two different calls in one formula stay two terms. Three known findings (sign over an un-parenthesised power, chains of **, and the resulting identity of two texts that Python reads differently) are matched by structural markers of the input plus the observed formula-grammar reading.",
  "Trusted: z3; Python's eval as oracle; stubs in evidence; powers with non-integer / symbolic exponents are uninterpreted functions (same symbol on both sides). Chained comparisons, constant-only expressions and strings containing quote characters are outside.",
  "DESIGN.md section 4 C12")

check("C07",
  "exhaustive exploration of operation histories (decision variables) through the real API on z3-real cells; every result compared by z3 with the same operation on freshly imported modules, earlier results re-read after every step",
  "model_checking",
  "Every history of K operations (build a design, common/group evaluate_new_data on an existing design on one of three frames with disjoint z3 symbols and an unseen level, and for K = 4 configuration changes; initial mode and first build are case parameters) is executed on one live import of formulae. After each step the result must equal, as z3 terms and including slices, labels, term-wise sub-matrices and raised exception type, the same operation performed on freshly imported formulae modules; every earlier design is re-snapshotted and must be unchanged; the caller's frames (cells by identity, dtypes, index, columns) and namespace must be untouched.",
  "Trusted: z3; stubs in evidence; fresh process-state is realised by re-importing the formulae package (new registries, config, classes) rather than by a new OS process. K = 4 over a pool of 2 (quick) / 4 (thorough) formulas and 3 frames. Two plain-API parts (not solver verdicts): three interpreter processes with different string-hash seeds must agree on 12 formulas; objects of the caller passed by name are compared before / after 7 formulas.",
  "DESIGN.md section 4 C07")
