#!/usr/bin/env python3
"""Regenerates MANIFEST.json from the table below (keeps it schema-valid at all times)."""
import json, os

ENGINE_OF = {"C03": "linalg", "C13": "linalg+symx", "C05": "symx+linalg"}
CHECKS = {}
NA = {}

def check(pid, technique, category, text, note, design_ref):
    CHECKS[pid] = {
        "property_id": pid,
        "quick_cmd": f"./check {pid} --tier quick",
        "thorough_cmd": f"./check {pid} --tier thorough",
        "evidence_file": f"evidence/{pid}.json",
        "replay_cmd_template": f"./check {pid} --replay {{path}}",
        "engine": ENGINE_OF.get(pid, "symx"),
        "level_claimed": {"category": category, "text": text, "design_ref": design_ref},
        "level_note": note,
        "technique": technique,
    }

exec(open(os.path.join(os.path.dirname(__file__), "manifest_table.py")).read())

props = [json.loads(l)["id"] for l in open(os.path.join(os.path.dirname(__file__), "properties.jsonl"))]
man = {
    "version": 1,
    "setup_cmd": "./setup.sh",
    "hooks": {
        "guard": "FORMULAE_VERIF",
        "enable": "no hooks: checks import /repo's working tree unmodified and monkeypatch nothing inside /repo (stubs listed in evidence are applied in the harness process only)",
        "baseline_off_cmd": "cd /repo && /venv/bin/python -m pytest -ra -q -p no:cacheprovider --timeout=900 --continue-on-collection-errors",
        "source_commits": [],
        "add_only": True,
    },
    "engines": [
        {"name": "linalg", "path": "vf/linalg.py", "serves_properties": [p for p in sorted(CHECKS) if "linalg" in ENGINE_OF.get(p, "")], "kind_free_text": "QF_LRA (z3) decision of rank / span statements over exact rational matrices produced by the real code; witnesses re-checked in exact arithmetic"},
        {"name": "symx", "path": "vf/symx.py", "serves_properties": [p for p in sorted(CHECKS) if "symx" in ENGINE_OF.get(p, "symx")], "kind_free_text": "symbolic execution of the real formulae code on z3-backed values (operator overloading, replay-based DFS over solver-decided forks); obligations discharged by z3 with timeouts; counterexamples replayed on the plain API"},
    ],
    "checks": [CHECKS[p] for p in props if p in CHECKS],
    "not_applicable": [{"property_id": p, "reason": NA.get(p, "check not built yet in this round (see DESIGN.md section 4 for the plan)")} for p in props if p not in CHECKS],
    "notes": "Exit codes: 0 held (KNOWN-FINDING lines possible), 1 VIOLATION, 3 inconclusive/harness error. See DESIGN.md.",
}
json.dump(man, open(os.path.join(os.path.dirname(__file__), "MANIFEST.json"), "w"), indent=1)
print("checks:", sorted(CHECKS), "n/a:", [p for p in props if p not in CHECKS])
